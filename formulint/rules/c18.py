"""C18 — materialisation is pure and deterministic across calls, histories and hash seeds."""
from __future__ import annotations

import ast
import os
from typing import Dict, List, Optional, Set, Tuple

from ..cfg import CFG, ENTRY, EXIT, reaching_defs
from .. import sym
from ..core import AnalysisError, FunctionInfo, Project, dotted, is_const, kwarg, norm, param_names, walk_no_nested
from ..report import VERIF
from ..util import assignments, count_negations, header_calls, header_walk, mentions, returns_of, stmt_text, strip_casts
from .shared import MAT

EXPLANATION = (
    "Static rules: (R1) OWN — the working specs a materializer builds from carry deep copies of transform_state/encoder_state "
    "(dataclasses.replace shares references), and every state write during materialisation targets those working specs; (R2) "
    "ORDER — every site where a hash-ordered container (set display/comprehension, set()/frozenset(), set-annotated name, "
    "parameter, property or return, set algebra) is iterated is classified: consumed order-insensitively (sorted, membership, "
    "len/any/all, building another set/keyed dict, commutative loop body, next(iter()) under a len==1 guard) or reported, "
    "with three frozen exemptions carrying their reasons; (R3) OWN — in-place writes (subscript store, augmented assignment, "
    "del, in-place methods, out=/inplace=) whose target may alias a protected root (data parameters of transforms/encoders/"
    "null handlers, materializer data, cached values) need an intervening copy on every reaching definition; (R4) module-level "
    "singletons are not mutated outside import-time, and every mutable `_state` default belongs to a function only reachable "
    "through a wrapper that supplies the state; (R5) no source of nondeterminism (random, numpy.random, time, uuid, secrets, "
    "os.urandom, id(), builtin hash() outside __hash__) in package code; (R6) ModelSpec is frozen, updates copy, no "
    "object.__setattr__ elsewhere. Bit-identical floating point across calls is not decided."
)
ASSUMPTIONS = [
    "alias table: numpy.asarray/atleast_1d/asanyarray, slicing, .values, .__wrapped__, FactorValues(x), cast are aliases; numpy.array/copy, "
    ".copy(), .astype, arithmetic, numpy.where/clip (without out=), delete, to_pandas produce new objects",
    "sympy canonicalises commutative products (exemption of the sympy branch of _differentiate_factors)",
]

# ----------------------------------------------------------------------------- R1


def r1(ctx):
    P = ctx.project
    from .shared import spec_binder
    prep = spec_binder(P)   # today: the nested prepare_model_spec
    ov = [v for n, v, _ in assignments(prep.node) if n == "overrides" and isinstance(v, ast.Dict)]
    if not ov:
        raise AnalysisError("C18.R1: overrides dict of prepare_model_spec not found")
    d = {k.value: v for k, v in zip(ov[0].keys, ov[0].values) if isinstance(k, ast.Constant)}
    mp = [p_ for p_ in param_names(prep.node) if p_ not in ("self", "cls")][0]
    for fld in ("transform_state", "encoder_state"):
        ctx.look()
        v = d.get(fld)
        inst = f"the working spec's {fld} is a deep copy of the caller's"
        if v is None:
            ctx.fail("C18.R1", inst, prep.where, ctx.construct(prep, text=f"own {fld}"),
                     f"dataclasses.replace shares `{fld}` by reference: materialising writes the fitted state into the caller's spec (a second build "
                     f"from the same unfitted spec silently reuses the first data's statistics)")
            continue
        ok = isinstance(v, ast.Call) and dotted(v.func) in ("copy.deepcopy", "deepcopy") and len(v.args) == 1 and norm(v.args[0]) == f"{mp}.{fld}"
        ctx.check(ok, "C18.R1", inst, prep.module.line(v), ctx.construct(prep, text=f"own {fld}"),
                  f"`{fld}` is bound to `{norm(v)[:80]}`; a shallow copy still shares the nested per-transform dictionaries")
    r = returns_of(prep.node)
    ctx.check(bool(r) and norm(r[0].value) == f"{mp}.update(**overrides)", "C18.R1", "the working spec is a new object (update = dataclasses.replace)", prep.where,
              ctx.construct(prep, text="update"), f"returns `{norm(r[0].value) if r else None}`")
    # every state write during materialisation goes through the prepared specs
    g = P.func(MAT + ".get_model_matrix")
    env = {n: v for n, v, _ in assignments(g.node)}
    ms = env.get("model_specs")
    ok = ms is not None and norm(ms) == "self._prepare_model_specs(spec)"
    ctx.check(ok, "C18.R1", "get_model_matrix works on the prepared (owned) specs", g.where, ctx.construct(g, text="model_specs"),
              f"model_specs = `{norm(ms) if ms is not None else None}`")
    writes = [c for c in ast.walk(g.node) if isinstance(c, ast.Call) and isinstance(c.func, ast.Attribute) and c.func.attr == "_map"
              and ("transform_state.update" in norm(c) or "_build_model_matrix" in norm(c))]
    ctx.floor("C18.R1", len(writes), 1, "state-writing / building maps in get_model_matrix")
    for w in writes:
        ctx.look()
        ctx.check(norm(w.func.value) == "model_specs", "C18.R1", "state is written into / matrices are built from the owned specs only", g.module.line(w),
                  ctx.construct(g, text=f"_map on {norm(w.func.value)}"), f"`{norm(w)[:80]}` operates on `{norm(w.func.value)}` (the caller's object)")
    # the pooled evaluation spec gets fresh dictionaries too
    pf = P.func(MAT + "._prepare_factor_evaluation_model_spec")
    env = {n: norm(v) for n, v, _ in assignments(pf.node)}
    ok = env.get("transform_state") == "{}" and env.get("encoder_state") == "{}"
    ctx.check(ok, "C18.R1", "the pooled evaluation spec starts from fresh dictionaries", pf.where, ctx.construct(pf, text="fresh pooled state"),
              f"transform_state={env.get('transform_state')}, encoder_state={env.get('encoder_state')}")


# ----------------------------------------------------------------------------- R2
def _ann_is_set(a: Optional[ast.AST]) -> bool:
    if a is None:
        return False
    t = norm(a).strip("'\"")
    return t.startswith(("set[", "Set[", "frozenset[", "AbstractSet[", "MutableSet[")) or t in ("set", "frozenset")


def _ret_set_positions(fn: ast.AST) -> Tuple[bool, List[int]]:
    r = getattr(fn, "returns", None)
    if r is None:
        return False, []
    if _ann_is_set(r):
        return True, []
    if isinstance(r, ast.Subscript) and norm(r.value) in ("tuple", "Tuple") and isinstance(r.slice, ast.Tuple):
        return False, [i for i, e in enumerate(r.slice.elts) if _ann_is_set(e)]
    return False, []


_SET_PROPS_CACHE: Dict[int, Set[str]] = {}


def _set_props(P: Project) -> Set[str]:
    """Property names that return a set in every class defining them and are nowhere a plain attribute / field."""
    if id(P) in _SET_PROPS_CACHE:
        return _SET_PROPS_CACHE[id(P)]
    byname: Dict[str, List[bool]] = {}
    plain: Set[str] = set()
    for c in P.classes.values():
        for n, m in c.methods.items():
            if any("property" in d for d in m.decorators()):
                byname.setdefault(n, []).append(_ret_set_positions(m.node)[0])
        for n_, ann in c.annotations.items():
            if not _ann_is_set(ann):
                plain.add(n_)
        sl = c.assigns.get("__slots__")
        if isinstance(sl, (ast.Tuple, ast.List)):
            plain |= {e.value for e in sl.elts if isinstance(e, ast.Constant)}
        for m in c.methods.values():
            for x in ast.walk(m.node):
                if isinstance(x, ast.Attribute) and isinstance(x.ctx, ast.Store) and isinstance(x.value, ast.Name) and x.value.id == "self":
                    plain.add(x.attr)
    out = {n for n, v in byname.items() if v and all(v) and n not in plain}
    _SET_PROPS_CACHE.clear()
    _SET_PROPS_CACHE[id(P)] = out
    return out


class SetTyping:
    def __init__(self, P: Project, f: FunctionInfo):
        self.P, self.f = P, f
        fn = f.node
        self.names: Set[str] = set()
        a = fn.args
        for x in list(a.posonlyargs) + list(a.args) + list(a.kwonlyargs):
            if _ann_is_set(x.annotation):
                self.names.add(x.arg)
        self.set_props = _set_props(P)
        changed = True
        while changed:
            changed = False
            for n in walk_no_nested(fn):
                tgt = val = None
                if isinstance(n, ast.AnnAssign) and isinstance(n.target, ast.Name):
                    if _ann_is_set(n.annotation) and n.target.id not in self.names:
                        self.names.add(n.target.id)
                        changed = True
                    continue
                if isinstance(n, ast.Assign) and len(n.targets) == 1:
                    tgt, val = n.targets[0], n.value
                    if isinstance(tgt, ast.Name) and tgt.id not in self.names and self.is_set(val):
                        self.names.add(tgt.id)
                        changed = True
                    if isinstance(tgt, ast.Tuple) and isinstance(strip_casts(val), ast.Call):
                        q = self._callee(strip_casts(val))
                        if q is not None:
                            _, pos = _ret_set_positions(q.node)
                            for i in pos:
                                if i < len(tgt.elts) and isinstance(tgt.elts[i], ast.Name) and tgt.elts[i].id not in self.names:
                                    self.names.add(tgt.elts[i].id)
                                    changed = True

    def _callee(self, c: ast.Call) -> Optional[FunctionInfo]:
        q = self.P.resolve_in(self.f, c.func)
        if q in self.P.functions:
            return self.P.functions[q]
        if isinstance(c.func, ast.Attribute):
            name = c.func.attr
            owner = self.f.cls
            if isinstance(c.func.value, ast.Name) and c.func.value.id in ("self", "cls") and owner is not None:
                for k in self.P.mro(owner.qualname):
                    if name in k.methods:
                        return k.methods[name]
            cands = [m for k in self.P.classes.values() for n_, m in k.methods.items() if n_ == name]
            if len(cands) == 1:
                return cands[0]
        return None

    def is_set(self, e: ast.AST) -> bool:
        e = strip_casts(e)
        if isinstance(e, ast.Set):
            return len(e.elts) > 1  # a one-element display has only one order
        if isinstance(e, ast.SetComp):
            return True
        if isinstance(e, ast.BoolOp):
            return any(self.is_set(v) for v in e.values)
        if isinstance(e, ast.Name):
            return e.id in self.names
        if isinstance(e, ast.Call):
            d = dotted(e.func) or ""
            if d in ("set", "frozenset"):
                return True
            if isinstance(e.func, ast.Attribute) and e.func.attr in ("union", "difference", "intersection", "symmetric_difference", "copy") and self.is_set(e.func.value):
                return True
            q = self._callee(e)
            if q is not None and _ret_set_positions(q.node)[0]:
                # a function whose every return is `set()` or a one-element display yields an order-trivial set
                def arms(x):
                    return arms(x.body) + arms(x.orelse) if isinstance(x, ast.IfExp) else [x]
                rets = [a for r in returns_of(q.node) if r.value is not None for a in arms(r.value)]
                trivial = rets and all((isinstance(r, ast.Call) and dotted(r.func) == "set" and not r.args) or (isinstance(r, ast.Set) and len(r.elts) <= 1) for r in rets)
                return not trivial
            return False
        if isinstance(e, ast.BinOp) and isinstance(e.op, (ast.Sub, ast.BitOr, ast.BitAnd, ast.BitXor)):
            if self.is_set(e.left):
                return True
            # ordered | set: the right operand's hash order is appended
            if isinstance(e.op, (ast.BitOr, ast.BitXor)) and self.is_set(e.right):
                return True
            return False
        if isinstance(e, ast.Attribute) and e.attr in self.set_props:
            return True
        if isinstance(e, ast.IfExp):
            return self.is_set(e.body) or self.is_set(e.orelse)
        return False


ORDERED_CTORS = {"Term", "ScopedTerm", "SimpleFormula", "OrderedSet", "Structured", "ModelSpecs", "StructuredFormula"}  # build ordered sequences from their argument
ORDER_FREE_CONSUMERS = {"sorted", "set", "frozenset", "any", "all", "len", "sum", "min", "max", "bool"}
COMMUTATIVE_METHODS = {"add", "update", "discard", "union", "difference", "intersection", "setdefault"}

# site key = (function qualname suffix, normalised iterated expression)
R2_EXEMPT = {
    ("parser.parser.DefaultFormulaParser.get_tokens_from_formula", "token.required_variables"):
        "the list is stored under a context key whose only reader re-wraps it in set(...) (verified: insert_unused_terms)",
    ("materializers.base.FormulaMaterializer.get_model_matrix", "factors"):
        "evaluation order of the pooled factor set: effects commute (keyed cache stores, set union of dropped rows, per-expression state keys)",
    ("utils.calculus._differentiate_factors", "factors"):
        "sympy branch only: the joined product is canonicalised by sympy (commutative multiplication) — trusted",
    ("formula._FormulaMeta.from_spec", "spec"):
        "the caller supplied an unordered collection (set spec); terms are then degree-sorted — order within a degree is the caller's to give up",
}
SKIP_MODULES = ("formulaic.utils.constraints",)  # ScaledFactor sets: rows are assembled by variable lookup, not by position


def r2(ctx):
    P = ctx.project
    n_sites = 0
    used = set()
    for f in sorted(P.functions.values(), key=lambda x: x.qualname):
        if isinstance(f.node, ast.Lambda) or f.module.name in SKIP_MODULES:
            continue
        ty = SetTyping(P, f)
        fn = f.node
        for n in walk_no_nested(fn):
            sites: List[Tuple[ast.AST, ast.AST, str]] = []  # (iterated expr, consumer node, kind)
            if isinstance(n, (ast.For, ast.AsyncFor)) and ty.is_set(n.iter):
                sites.append((n.iter, n, "for"))
            elif isinstance(n, (ast.ListComp, ast.GeneratorExp, ast.DictComp, ast.SetComp)):
                for g in n.generators:
                    it = g.iter
                    if isinstance(it, ast.Call) and dotted(it.func) in ("enumerate", "reversed", "iter") and it.args:
                        it = it.args[0]
                    if ty.is_set(it):
                        sites.append((it, n, "comp"))
            elif isinstance(n, ast.Call):
                d = dotted(n.func) or ""
                if d.split(".")[-1] in ORDERED_CTORS and n.args:
                    a0 = n.args[0]
                    if ty.is_set(a0):
                        sites.append((a0, n, d.split(".")[-1]))
                if d in ("list", "tuple", "enumerate", "dict.fromkeys", "itertools.chain", "next", "iter") and n.args:
                    a0 = n.args[0]
                    if d == "next" and isinstance(a0, ast.Call) and dotted(a0.func) == "iter" and a0.args:
                        if ty.is_set(a0.args[0]):
                            sites.append((a0.args[0], n, "next-iter"))
                    elif d != "next" and d != "iter" and ty.is_set(a0 if not isinstance(a0, ast.Starred) else a0.value):
                        sites.append((a0, n, d))
                if isinstance(n.func, ast.Attribute) and n.func.attr == "join" and n.args and ty.is_set(n.args[0]):
                    sites.append((n.args[0], n, "join"))
                for a in n.args:
                    if isinstance(a, ast.Starred) and ty.is_set(a.value) and d not in ("Variable.union", "set.union"):
                        sites.append((a.value, n, "star-args"))
            for it, node, kind in sites:
                n_sites += 1
                ctx.look()
                verdict = _classify_site(P, f, ty, it, node, kind)
                inst = f"{f.qualname.replace('formulaic.', '')}: iteration over hash-ordered `{norm(it)[:40]}` is order-insensitive"
                if verdict is None:
                    ctx.ok("C18.R2", inst, f.module.line(node))
                    continue
                ex = [(k, why) for k, why in R2_EXEMPT.items() if f.qualname.endswith(k[0]) and norm(it) == k[1]]
                if ex:
                    used.add(ex[0][0])
                    ctx.ok("C18.R2", inst + f" [exempt: {ex[0][1]}]", f.module.line(node), trivial=True)
                    continue
                ctx.fail("C18.R2", inst, f.module.line(node), ctx.construct(f, text=f"{kind} over {norm(it)[:60]}"),
                         f"the iteration order of the hash-ordered collection `{norm(it)[:60]}` {verdict}; with another PYTHONHASHSEED the result "
                         f"(column / term / row order) changes")
    ctx.floor("C18.R2", n_sites, 8, "set-iteration sites")
    if ("parser.parser.DefaultFormulaParser.get_tokens_from_formula", "token.required_variables") in used:
        key = "__formulaic_variables_used_lhs__"
        reads = []
        for f in P.functions.values():
            if isinstance(f.node, ast.Lambda):
                continue
            for x in walk_no_nested(f.node):
                if isinstance(x, ast.Subscript) and isinstance(x.ctx, ast.Load) and is_const(x.slice, key):
                    reads.append((f, x))
        bad = [(f, x) for f, x in reads if not (isinstance(P.parent(x), ast.Call) and dotted(P.parent(x).func) in ("set", "frozenset"))]
        ctx.check(bool(reads) and not bad, "C18.R2", f"every reader of context[{key!r}] re-wraps it in set(...)", "formulaic/parser/parser.py",
                  f"formulaic.parser.parser:readers of {key}", f"ordered use of the hash-ordered list at {[f.module.line(x) for f, x in bad]}")
    # positive fixture: the matcher must flag an ordered consumer of a set
    fx = os.path.join(VERIF, "fixtures", "set_order.py")
    tree = ast.parse(open(fx).read())
    flagged = 0
    for fn in tree.body:
        if isinstance(fn, ast.FunctionDef):
            fake = FunctionInfo("fixture." + fn.name, fn, P.module("formulaic.formula"))
            ty = SetTyping(P, fake)
            for n in ast.walk(fn):
                if isinstance(n, (ast.ListComp, ast.GeneratorExp)) and ty.is_set(n.generators[0].iter):
                    par = _parent_of(tree, n)
                    if not (isinstance(par, ast.Call) and dotted(par.func) in ORDER_FREE_CONSUMERS):
                        flagged += 1
                if isinstance(n, ast.For) and ty.is_set(n.iter):
                    flagged += 1
    if flagged < 3:
        raise AnalysisError(f"C18.R2 fixture: set-order matcher flagged {flagged} of 3 known ordered consumers")


def _parent_of(tree, node):
    for p in ast.walk(tree):
        for c in ast.iter_child_nodes(p):
            if c is node:
                return p
    return None


def _classify_site(P: Project, f: FunctionInfo, ty: SetTyping, it: ast.AST, node: ast.AST, kind: str) -> Optional[str]:
    """None if the consumption is order-insensitive, else a description of where the order goes."""
    par = P.parent(node)
    if kind == "comp":
        if isinstance(node, (ast.SetComp, ast.DictComp)):
            return None
        if isinstance(par, ast.Call):
            d = dotted(par.func) or ""
            if d in ORDER_FREE_CONSUMERS or d.endswith("Variable.union") or (isinstance(par.func, ast.Attribute) and par.func.attr in COMMUTATIVE_METHODS):
                return None
            if isinstance(par.func, ast.Attribute) and par.func.attr == "join":
                return "flows into a joined string"
            if d in ("itertools.chain", "chain") or isinstance(P.parent(par), ast.Starred):
                pass
        if isinstance(par, ast.Starred):
            gp = P.parent(par)
            if isinstance(gp, ast.Call) and ((dotted(gp.func) or "").endswith("union") or dotted(gp.func) in ORDER_FREE_CONSUMERS):
                return None
        return "flows into an ordered sequence"
    if kind == "for":
        body = [s_ for s_ in node.body if not (isinstance(s_, ast.If) and not s_.orelse and len(s_.body) == 1 and isinstance(s_.body[0], ast.Continue))]
        for st in body:
            ok = False
            if isinstance(st, ast.Expr) and isinstance(st.value, ast.Call) and isinstance(st.value.func, ast.Attribute) and st.value.func.attr in COMMUTATIVE_METHODS:
                ok = True
            if isinstance(st, ast.Expr) and isinstance(st.value, ast.Call) and dotted(st.value.func) == "setattr":
                ok = True
            loopvar = norm(node.target)
            if isinstance(st, ast.Expr) and isinstance(st.value, ast.Call) and isinstance(st.value.func, ast.Attribute) and st.value.func.attr in ("pop", "discard", "remove") \
                    and st.value.args and norm(st.value.args[0]) == loopvar:
                ok = True  # keyed removal by the loop variable (after a skip-guard): commutative
            if isinstance(st, ast.If) and all(
                    isinstance(s, ast.Expr) and isinstance(s.value, ast.Call) and isinstance(s.value.func, ast.Attribute) and s.value.func.attr in ("pop", "discard", "remove")
                    and s.value.args and norm(s.value.args[0]) == loopvar for s in st.body) and not st.orelse:
                ok = True  # keyed removal by the loop variable: commutative
            if isinstance(st, (ast.Assign, ast.AugAssign)):
                tg = st.targets[0] if isinstance(st, ast.Assign) else st.target
                if isinstance(tg, ast.Subscript):
                    ok = True  # keyed store
            if not ok and isinstance(st, ast.If) and all(isinstance(s, (ast.Expr, ast.Raise, ast.Continue, ast.Pass)) or (isinstance(s, ast.Assign) and isinstance(s.targets[0], ast.Subscript))
                                              for s in ast.walk(st) if isinstance(s, ast.stmt) and s is not st and not isinstance(s, ast.If)):
                ok = all((not isinstance(s, ast.Expr)) or (isinstance(s.value, ast.Call) and isinstance(s.value.func, ast.Attribute) and s.value.func.attr in COMMUTATIVE_METHODS)
                         for s in ast.walk(st) if isinstance(s, ast.Expr))
            if not ok:
                return f"drives the loop body `{stmt_text(st, 60)}` whose effect may depend on order"
        return None
    if kind == "next-iter":
        # dominated by a guard that rejects the set unless it has exactly one element
        name = norm(it)
        fn = f.node
        from ..util import truth_table, guards_of
        # the element is taken inside a branch that is only entered when the set has exactly one element
        if (f"len({name}) == 1", True) in guards_of(P, node):
            return None
        for g in walk_no_nested(fn):
            if not (isinstance(g, ast.If) and g.lineno <= node.lineno and any(isinstance(s, (ast.Raise, ast.Continue, ast.Return)) for s in g.body)):
                continue
            target_ne, target_eq = f"len({name}) != 1", f"len({name}) == 1"
            leaves: List[str] = []

            def collect(e):
                if isinstance(e, ast.BoolOp):
                    for v in e.values:
                        collect(v)
                elif isinstance(e, ast.UnaryOp) and isinstance(e.op, ast.Not):
                    collect(e.operand)
                else:
                    t_ = norm(e)
                    t_ = target_ne if t_ == target_eq else t_
                    if t_ not in leaves:
                        leaves.append(t_)
            collect(g.test)
            if target_ne not in leaves:
                continue

            def atom(e, _leaves=leaves):
                t_ = norm(e)
                if t_ == target_eq:
                    return (_leaves.index(target_ne), False)
                return (_leaves.index(t_), True) if t_ in _leaves else None
            tt = truth_table(g.test, atom, len(leaves))
            if isinstance(tt, tuple):
                import itertools as _it
                k = leaves.index(target_ne)
                # the guard must exit whenever len(name) != 1, whatever the other conditions are
                if all(res for env, res in zip(_it.product([False, True], repeat=len(leaves)), tt) if env[k]):
                    return None
                return f"picks an arbitrary element: the guard `{norm(g.test)[:70]}` does not reject every case with len({name}) != 1"
        return "picks an arbitrary element (no `len(...) == 1` guard)"
    if kind in ("list", "tuple", "enumerate", "dict.fromkeys", "itertools.chain", "join", "star-args") or kind in ORDERED_CTORS:
        if isinstance(par, ast.Call) and (dotted(par.func) or "") in ORDER_FREE_CONSUMERS:
            return None
        return f"is materialised by `{kind}`"
    return f"is consumed by `{kind}`"


# ----------------------------------------------------------------------------- R3
ALIAS_CALLS = {"asarray", "atleast_1d", "atleast_2d", "asanyarray", "ascontiguousarray", "FactorValues", "ravel", "reshape", "squeeze", "view", "Series", "transpose"}
COPY_CALLS = {"array", "copy", "deepcopy", "astype", "where", "clip", "delete", "to_pandas", "to_numpy", "tolist", "list", "dict", "empty", "zeros", "ones", "eye",
              "stack", "hstack", "vstack", "concatenate", "power", "pad", "DataFrame", "get_dummies", "Categorical", "csc_matrix", "lil_matrix", "tocsr", "tocsc", "tolil",
              "toarray", "repeat", "arange", "float", "int", "str", "sorted", "set", "tuple", "defaultdict", "unique", "isnan", "flatnonzero", "matmul", "dot", "fromkeys"}
INPLACE_METHODS = {"fill", "sort", "pop", "append", "update", "clear", "insert", "extend", "resize", "remove", "put", "itemset", "setdefault", "popitem", "partition", "byteswap",
                   "setflags", "drop_duplicates"}


def _base_name(t: ast.AST) -> Optional[str]:
    while isinstance(t, (ast.Subscript, ast.Attribute)):
        t = t.value
    return t.id if isinstance(t, ast.Name) else None


STATE_LIKE = ("_state", "state", "_metadata", "_spec", "_context", "encoder_state", "model_spec")


def protected_functions(P: Project) -> List[Tuple[FunctionInfo, List[str]]]:
    """Functions whose leading data parameter is caller-owned."""
    out = []
    for f in P.functions.values():
        if isinstance(f.node, ast.Lambda):
            continue
        mod = f.module.name
        ps = [p for p in param_names(f.node) if not p.startswith("*")]
        if mod.startswith("formulaic.transforms") and ps and ps[0] not in ("self", "cls"):
            # every argument of a transform may be a caller-owned mutable (data column, knots list, scores, contrast spec, …)
            roots = [p for p in ps if p not in STATE_LIKE]
            out.append((f, roots))
        elif mod == "formulaic.utils.null_handling" and ps:
            out.append((f, [ps[0]]))
        elif mod in ("formulaic.utils.sparse", "formulaic.utils.cast") and ps:
            out.append((f, [ps[0]]))
        elif mod.startswith("formulaic.materializers") and f.cls is not None and ps and ps[0] == "self":
            roots = [p for p in ps[1:] if p in ("values", "value", "data", "factor", "cols")]  # `spec` is the owned working spec (R1)
            out.append((f, roots + ["<self.data>"]))
        elif f.qualname.endswith("stateful_transform.<locals>.wrapper"):
            out.append((f, ["data"]))
    # a PRIVATE module-level helper of a transforms module is only ever called by the code next to it: one of its parameters is
    # caller-owned exactly when, at some call site, the argument may alias caller-owned data of the calling function
    by_q = {f.qualname: i for i, (f, _r) in enumerate(out)}
    priv = [f for f, _r in out if f.module.name.startswith("formulaic.transforms") and f.parent is None and f.cls is None and f.name.startswith("_")]
    for _ in range(3):
        for h in priv:
            sites = []
            for g, groots in out:
                if g.module is not h.module or g is h:
                    continue
                for c in walk_no_nested(g.node):
                    if isinstance(c, ast.Call) and isinstance(c.func, ast.Name) and c.func.id == h.name:
                        sites.append((g, groots, c))
            if not sites:
                continue
            hp = [p for p in param_names(h.node) if not p.startswith("*")]
            owned: Set[str] = set()
            for g, groots, c in sites:
                cfg_g = CFG(g.node)
                st_c = P.enclosing_stmt(c)
                bound = list(zip(hp, c.args)) + [(k.arg, k.value) for k in c.keywords if k.arg]
                for pn, a in bound:
                    if pn in STATE_LIKE:
                        continue
                    names = [n.id for n in ast.walk(a) if isinstance(n, ast.Name)]
                    if any(_alias_chain(P, cfg_g, st_c, nm, set(groots), g.node, 0, set()) is not None for nm in names):
                        owned.add(pn)
            out[by_q[h.qualname]] = (h, [p for p in hp if p in owned])
    return out


def r3(ctx):
    P = ctx.project
    subs = protected_functions(P)
    ctx.floor("C18.R3", len(subs), 40, "functions receiving caller-owned data")
    n_writes = 0
    for f, roots in subs:
        fn = f.node
        cfg = None
        for st in walk_no_nested(fn):
            targets: List[Tuple[ast.AST, str]] = []
            if isinstance(st, ast.Assign):
                targets += [(t, "item store") for t in st.targets if isinstance(t, (ast.Subscript,))]
            elif isinstance(st, ast.AugAssign):
                targets.append((st.target, "augmented assignment"))
            elif isinstance(st, ast.Delete):
                targets += [(t, "del") for t in st.targets if isinstance(t, ast.Subscript)]
            elif isinstance(st, ast.Expr) and isinstance(st.value, ast.Call) and isinstance(st.value.func, ast.Attribute) and st.value.func.attr in INPLACE_METHODS:
                targets.append((st.value.func.value, f".{st.value.func.attr}()"))
            for c in ([n for n in ast.walk(st) if isinstance(n, ast.Call)] if isinstance(st, (ast.Assign, ast.Expr, ast.Return, ast.AugAssign)) else []):
                o = kwarg(c, "out")
                if o is not None and isinstance(o, ast.Name):
                    targets.append((o, "out="))
                ip = kwarg(c, "inplace")
                if ip is not None and is_const(ip, True) and isinstance(c.func, ast.Attribute):
                    targets.append((c.func.value, "inplace=True"))
            for t, how in targets:
                base = _base_name(t)
                if base is None:
                    continue
                if base == "self":
                    d = dotted(t if not isinstance(t, ast.Subscript) else t.value) or ""
                    if d.startswith(("self.data", "self.context", "self.data_context")) and f.name not in ("__init__", "_init"):
                        n_writes += 1
                        ctx.fail("C18.R3", f"{f.qualname.replace('formulaic.', '')}: the materializer's data is not written", f.module.line(st), ctx.construct(f, st),
                                 f"`{stmt_text(st, 80)}` writes into the caller's data / context")
                    continue
                n_writes += 1
                ctx.look()
                if cfg is None:
                    cfg = CFG(fn)
                stmt = P.enclosing_stmt(t) or st
                chain = _alias_chain(P, cfg, stmt, base, set(roots), fn, 0, set())
                inst = f"{f.qualname.replace('formulaic.', '')}: in-place {how} on `{base}` does not reach caller-owned data"
                ctx.check(chain is None, "C18.R3", inst, f.module.line(st), ctx.construct(f, text=f"{how} on {base}: {stmt_text(st, 60)}"),
                          f"`{stmt_text(st, 80)}` mutates `{base}`, which may alias the caller-owned `{chain[-1] if chain else ''}` without an intervening copy "
                          f"(alias chain: {' <- '.join(chain or [])})")
    ctx.floor("C18.R3", n_writes, 20, "in-place write sites inspected")
    # cached encodings are copied before the reference column is deleted (shared with C03.R6)


def _alias_chain(P, cfg: CFG, at: ast.stmt, name: str, roots: Set[str], fn, depth: int, seen: Set[int]) -> Optional[List[str]]:
    """If ``name`` at ``at`` may alias a protected root, the alias chain; else None."""
    if depth > 8:
        return None
    if not cfg.reachable(at):
        return None
    defs = reaching_defs(cfg, at, name)
    for d in defs:
        if d == ENTRY:
            if name in roots:
                return [name]
            continue
        if id(d) in seen:
            continue
        seen.add(id(d))
        v = None
        if isinstance(d, (ast.Assign, ast.AnnAssign)):
            v = d.value
        elif isinstance(d, ast.AugAssign):
            # x op= ... keeps the object: follow the previous definition
            r = _alias_chain(P, cfg, d, name, roots, fn, depth + 1, seen)
            if r:
                return [name] + r
            continue
        elif isinstance(d, (ast.For,)):
            # loop variable over a container: elements of a protected container are protected
            src = _alias_source(d.iter)
            if src is not None:
                r = [src] if src in roots else _alias_chain(P, cfg, d, src, roots, fn, depth + 1, seen)
                if r:
                    return [name] + r
            continue
        if v is None:
            continue
        src = _alias_source(v)
        if src is None:
            continue
        if src == "<self.data>" and "<self.data>" in roots:
            return [name, "self.data"]
        if src in roots and _reaches_param(cfg, d, src):
            return [name, src]
        r = _alias_chain(P, cfg, d, src, roots, fn, depth + 1, seen)
        if r:
            return [name] + r
    return None


def _reaches_param(cfg: CFG, at: ast.stmt, name: str) -> bool:
    return ENTRY in reaching_defs(cfg, at, name)


def _alias_source(v: ast.AST) -> Optional[str]:
    """Name whose object ``v`` may share (alias-preserving forms only)."""
    v = strip_casts(v)
    if isinstance(v, ast.Name):
        return v.id
    if isinstance(v, ast.IfExp):
        return _alias_source(v.body) or _alias_source(v.orelse)
    if isinstance(v, ast.Attribute):
        d = dotted(v) or ""
        if d.startswith(("self.data", "self.data_context")):
            return "<self.data>"
        if v.attr in ("values", "__wrapped__", "T", "array", "flat", "real"):
            return _alias_source(v.value)
        return None
    if isinstance(v, ast.Subscript):
        d = dotted(v.value) or ""
        if d in ("self.factor_cache", "self.encoded_cache"):
            return None  # cached objects: deletion on copies is checked by C03.R6
        return _alias_source(v.value)  # slices / element access are views / contained objects
    if isinstance(v, ast.Call):
        d = dotted(v.func) or ""
        tail = d.split(".")[-1] if d else (v.func.attr if isinstance(v.func, ast.Attribute) else "")
        if tail in ALIAS_CALLS:
            if isinstance(v.func, ast.Attribute) and tail in ("ravel", "reshape", "squeeze", "view", "transpose"):
                return _alias_source(v.func.value)
            if v.args:
                return _alias_source(v.args[0])
        return None
    return None


# ----------------------------------------------------------------------------- R4
def r4(ctx):
    P = ctx.project
    singles = {"formulaic.formula.DEFAULT_PARSER", "formulaic.formula.DEFAULT_NESTED_PARSER", "formulaic.transforms.TRANSFORMS",
               "formulaic.transforms.patsy_compat.PATSY_COMPAT_TRANSFORMS"}
    for q in singles:
        mod, _, name = q.rpartition(".")
        if name not in P.module(mod).assigns:
            raise AnalysisError(f"C18.R4: singleton {q} vanished")
    n = 0
    MUT = {"set_feature_flags", "update", "pop", "clear", "setdefault", "popitem", "__setitem__", "append", "extend"}
    for f in P.functions.values():
        if isinstance(f.node, ast.Lambda):
            continue
        for x in walk_no_nested(f.node):
            tgt = None
            how = ""
            if isinstance(x, ast.Call) and isinstance(x.func, ast.Attribute) and x.func.attr in MUT:
                tgt, how = x.func.value, f".{x.func.attr}()"
            elif isinstance(x, (ast.Assign, ast.AugAssign, ast.Delete)):
                ts = x.targets if isinstance(x, (ast.Assign, ast.Delete)) else [x.target]
                for t in ts:
                    if isinstance(t, (ast.Subscript, ast.Attribute)):
                        tgt, how = t.value, "store"
            if tgt is None:
                continue
            rq = P.resolve_in(f, tgt) if isinstance(tgt, (ast.Name, ast.Attribute)) else None
            if rq in singles:
                n += 1
                ctx.fail("C18.R4", f"module-level singleton {rq.split('.')[-1]} is not mutated at run time", f.module.line(x), ctx.construct(f, x),
                         f"`{norm(x)[:80]}` mutates the shared module-level object {rq}: every later parse / build in the process sees the change")
    ctx.look(len(P.functions))
    ctx.ok("C18.R4", f"no run-time mutation of the {len(singles)} module-level singletons ({n} found)", "formulaic/")
    # parse contexts: the default parsers never receive caller mappings to write into
    fp = P.func("formulaic.parser.types.formula_parser.FormulaParser.parse")
    ok = _private_layer_dominates(P, fp, "context", "LayeredMapping(context or {}, self.context)", ("get_tokens_from_formula", "get_ast_from_tokens", "get_terms_from_ast"))
    ctx.check(ok, "C18.R4", "parsing writes context keys into a private layer, not into the caller's or the parser's mapping", fp.where,
              ctx.construct(fp, text="private context"), "expected `context = LayeredMapping(context or {}, self.context)`")
    se = P.func("formulaic.utils.stateful_transforms.stateful_eval")
    ok = _private_layer_dominates(P, se, "env", "LayeredMapping(env)", ("sanitize_variable_names", "eval", "get_expression_variables", "_is_stateful_transform"))
    ctx.check(ok, "C18.R4", "factor evaluation edits the environment through a private layer", se.where, ctx.construct(se, text="private env"),
              "expected `env = LayeredMapping(env)` before sanitising names")
    # mutable `_state` defaults
    n_def = 0
    for f in P.functions.values():
        if isinstance(f.node, ast.Lambda):
            continue
        a = f.node.args
        pos = list(a.posonlyargs) + list(a.args)
        defaults = dict(zip([p.arg for p in pos][len(pos) - len(a.defaults):], a.defaults))
        defaults.update({k.arg: d for k, d in zip(a.kwonlyargs, a.kw_defaults) if d is not None})
        for pn, d in defaults.items():
            if isinstance(d, (ast.Dict, ast.List, ast.Set)) or (isinstance(d, ast.Call) and dotted(d.func) in ("dict", "list", "set")):
                n_def += 1
                ctx.look()
                wrapped = any(dec.split("(")[0].split(".")[-1] in ("stateful_transform",) for dec in f.decorators()) or _wrapped_by_assignment(P, f)
                ctx.check(wrapped and pn in ("_state", "_metadata"), "C18.R4", f"{f.qualname.replace('formulaic.', '')}: mutable default `{pn}` is always replaced by the wrapper",
                          f.where, ctx.construct(f, text=f"mutable default {pn}"),
                          f"mutable default `{pn}={norm(d)}` on a function that is not wrapped by stateful_transform: state leaks across calls in the process")
    ctx.floor("C18.R4", n_def, 4, "mutable parameter defaults")
    w = P.func("formulaic.utils.stateful_transforms.stateful_transform").locals_named("wrapper")
    from ..expect import contains_any
    sp_ = next((p_ for p_ in param_names(w.node) if p_ == "_state"), None)
    ok, _why = contains_any(P, w, [f"""
        def wrapper(data, *args, _metadata=None, _state=None, _spec=None, _context=None, **kwargs):
            {alt}
            extra_params = {{}}
            ...
    """ for alt in ("_state = {} if _state is None else _state", "_state = _state if _state is not None else {}", "if _state is None:\n                _state = {}")]) \
        if sp_ else (False, "")
    ctx.check(ok, "C18.R4", "the stateful wrapper supplies a fresh state dict when none is given", w.where, ctx.construct(w, text="fresh state"),
              "expected `_state = {} if _state is None else _state`")


def _private_layer_dominates(P: Project, f: FunctionInfo, name: str, value_text: str, users) -> bool:
    """`name = <value_text>` is executed on EVERY path before any of the calls in ``users`` that receive ``name``."""
    cfg = CFG(f.node)
    wraps = [st for st in cfg.stmts() if isinstance(st, (ast.Assign, ast.AnnAssign)) and norm(st.targets[0] if isinstance(st, ast.Assign) else st.target) == name
             and norm(st.value) == value_text]
    if len(wraps) != 1:
        return False
    w = wraps[0]
    for st in cfg.stmts():
        if st is w:
            continue
        for c in header_calls(st):
            nm = (dotted(c.func) or "").split(".")[-1]
            if nm in users and any(isinstance(x, ast.Name) and x.id == name for a in list(c.args) + [k.value for k in c.keywords] for x in ast.walk(a)):
                if not cfg.dominates(w, st):
                    return False
    # and the wrap is not skipped on some path (it must dominate the function's normal exits)
    return all(cfg.dominates(w, st) for st in cfg.stmts() if isinstance(st, ast.Return))


def _wrapped_by_assignment(P: Project, f: FunctionInfo) -> bool:
    """`name = stateful_transform(partial(f, ...))` at module level."""
    for v in f.module.assigns.values():
        if isinstance(v, ast.Call) and (dotted(v.func) or "").endswith("stateful_transform") and f.name in {n.id for n in ast.walk(v) if isinstance(n, ast.Name)}:
            return True
    return False


# ----------------------------------------------------------------------------- R5
NONDET_MODULES = ("random", "numpy.random", "time", "uuid", "secrets", "datetime")
NONDET_FUNCS = ("os.urandom", "os.getpid", "time.time")


def nondeterministic_calls(P: Project, f: FunctionInfo, fn: ast.AST) -> List[Tuple[ast.AST, str]]:
    out = []
    for c in walk_no_nested(fn):
        if isinstance(c, ast.Call):
            q = P.resolve_in(f, c.func) or ""
            if any(q == m or q.startswith(m + ".") for m in NONDET_MODULES) or q in NONDET_FUNCS:
                out.append((c, q))
            elif q in ("id",):
                out.append((c, "id()"))
            elif q == "hash" and not (isinstance(fn, ast.FunctionDef) and (fn.name in ("__hash__", "__init__"))):
                out.append((c, "hash()"))
    return out


def r5(ctx):
    P = ctx.project
    n = 0
    for f in P.functions.values():
        if isinstance(f.node, ast.Lambda):
            continue
        n += 1
        for c, q in nondeterministic_calls(P, f, f.node):
            ctx.fail("C18.R5", f"{f.qualname.replace('formulaic.', '')}: no source of nondeterminism", f.module.line(c), ctx.construct(f, c),
                     f"`{norm(c)[:80]}` ({q}) makes results depend on process history / hash seed / time: names, state keys or values derived from it differ between runs")
    ctx.look(n)
    ctx.ok("C18.R5", f"no random/time/uuid/id()/hash() call in {n} functions", "formulaic/")
    fx = os.path.join(VERIF, "fixtures", "nondeterminism.py")
    tree = ast.parse(open(fx).read())
    fake_mod = P.module("formulaic.utils.code")
    hits = 0
    for fn in tree.body:
        if isinstance(fn, ast.FunctionDef):
            # resolve names in a module that imports numpy as `numpy`
            fi = FunctionInfo("fixture." + fn.name, fn, P.module("formulaic.transforms.scale"))
            hits += len(nondeterministic_calls(P, fi, fn))
    if hits < 3:
        raise AnalysisError(f"C18.R5 fixture: nondeterminism matcher found {hits} of 3 known sources")


# ----------------------------------------------------------------------------- R6
def r6(ctx):
    P = ctx.project
    MS = P.cls("formulaic.model_spec.ModelSpec")
    ctx.look(3)
    ok = any("dataclass(frozen=True)" in norm(d) for d in MS.node.decorator_list)
    ctx.check(ok, "C18.R6", "ModelSpec is a frozen dataclass", MS.where, ctx.construct(MS.qualname, text="frozen"), "ModelSpec must be @dataclass(frozen=True)")
    up = MS.methods["update"]
    r = returns_of(up.node)
    ctx.check(bool(r) and norm(r[0].value) in ("replace(self, **kwargs)", "dataclasses.replace(self, **kwargs)"), "C18.R6", "ModelSpec.update returns a new object",
              up.where, ctx.construct(up, text="update"), f"update returns `{norm(r[0].value) if r else None}`")
    bad = []
    for f in P.functions.values():
        if isinstance(f.node, ast.Lambda):
            continue
        for c in walk_no_nested(f.node):
            if isinstance(c, ast.Call) and dotted(c.func) == "object.__setattr__":
                bad.append((f, c))
            if isinstance(c, ast.Assign) and f.cls is not None and f.cls.qualname == MS.qualname and f.name != "__post_init__":
                for t in c.targets:
                    if isinstance(t, ast.Subscript) and norm(t.value) == "self.__dict__":
                        bad.append((f, c))
    for f, c in bad:
        ctx.fail("C18.R6", "spec attributes are only normalised in __post_init__", f.module.line(c), ctx.construct(f, c),
                 f"`{norm(c)[:80]}` bypasses the frozen dataclass outside __post_init__")
    if not bad:
        ctx.ok("C18.R6", "spec attributes are only normalised in __post_init__", MS.where)
    # cached properties live in __dict__ but are not pickled / copied into updates: replace() re-runs __init__
    # the spec's own dictionaries are not written by its methods
    for name, m in MS.methods.items():
        for x in walk_no_nested(m.node):
            if isinstance(x, (ast.Assign, ast.AugAssign)) or (isinstance(x, ast.Expr) and isinstance(x.value, ast.Call)):
                t = norm(x)
                if ("self.transform_state" in t or "self.encoder_state" in t or "self.structure" in t) and any(k in t for k in (".update(", "] =", ".pop(", ".clear(", ".append(")):
                    ctx.fail("C18.R6", f"ModelSpec.{name} does not mutate the spec's state", m.module.line(x), ctx.construct(m, x), f"`{t[:80]}` mutates a frozen spec's state")



def r7(ctx):
    """Contrast / transform helper objects are values: their methods never assign to `self` outside construction (a user-held contrasts object
    is shared by every build that uses it)."""
    P = ctx.project
    n = 0
    for C in P.classes.values():
        if C.module.name != "formulaic.transforms.contrasts":
            continue
        for name, m in C.methods.items():
            if name in ("__init__", "__post_init__", "__new__"):
                continue
            n += 1
            for x in walk_no_nested(m.node):
                tg = []
                if isinstance(x, ast.Assign):
                    tg = x.targets
                elif isinstance(x, (ast.AugAssign, ast.AnnAssign)):
                    tg = [x.target]
                for t in tg:
                    b = t
                    while isinstance(b, (ast.Attribute, ast.Subscript)):
                        if isinstance(b, ast.Attribute) and isinstance(b.value, ast.Name) and b.value.id == "self":
                            ctx.fail("C18.R7", f"{C.qualname.split('.')[-1]}.{name} does not modify the contrasts object", m.module.line(x), ctx.construct(m, x),
                                     f"`{stmt_text(x, 80)}` stores into the (possibly user-held, shared) contrasts object: a later build with other levels inherits the value")
                            break
                        b = b.value
    ctx.look(n)
    ctx.floor("C18.R7", n, 30, "methods of contrast classes")
    ctx.ok("C18.R7", f"no method of the contrast classes assigns to self outside construction ({n} methods)", "formulaic/transforms/contrasts.py")



def r8(ctx):
    """A materializer can be asked for several matrices: whatever get_model_matrix caches depends on the spec being built, so every
    cache attribute of the materializer is cleared before the factors of a call are evaluated."""
    P = ctx.project
    init = P.func(MAT + ".__init__")
    caches = [norm(st.target if isinstance(st, ast.AnnAssign) else st.targets[0]).replace("self.", "") for st in walk_no_nested(init.node)
              if isinstance(st, (ast.Assign, ast.AnnAssign)) and norm(st.target if isinstance(st, ast.AnnAssign) else st.targets[0]).startswith("self.")
              and st.value is not None and norm(st.value) == "{}"]
    # the caches are per-materializer objects: a mutable class attribute of the same role would be shared by every instance (and by
    # nested builds that run while another build is under way)
    C_ = P.cls(MAT)
    shared_ = sorted(k for k, v in C_.assigns.items() if k.endswith("_cache") and isinstance(v, (ast.Dict, ast.List, ast.Set, ast.Call)))
    ctx.look()
    ctx.check(not shared_, "C18.R8", "the materializer's caches are instance state, created in __init__", C_.where, ctx.construct(MAT, text="cache attributes are per instance"),
              f"{shared_} are class-level mutable attributes: all materializers share them, so a model_matrix() call made from inside a transform or context "
              f"function while another build is running overwrites that build's evaluated factors")
    if shared_:
        return
    ctx.floor("C18.R8", len(caches), 2, "cache attributes of the materializer")
    g = P.func(MAT + ".get_model_matrix")
    cfg = CFG(g.node)
    evals = [st for st in cfg.stmts() if any(isinstance(c.func, ast.Attribute) and c.func.attr == "_evaluate_factor" for c in header_calls(st))]
    loop = P.parent(evals[0]) if evals else None
    for cname in caches:
        ctx.look()
        clears = [st for st in cfg.stmts() if isinstance(st, ast.Expr) and norm(st.value) == f"self.{cname}.clear()"]
        rebinds = [st for st in cfg.stmts() if isinstance(st, (ast.Assign, ast.AnnAssign)) and norm(st.targets[0] if isinstance(st, ast.Assign) else st.target) == f"self.{cname}" and norm(st.value) == "{}"]
        ok = bool(clears + rebinds) and loop is not None and all(cfg.dominates(c_, loop) for c_ in clears + rebinds)
        ctx.check(ok, "C18.R8", f"get_model_matrix starts from an empty `{cname}`", g.where, ctx.construct(g, text=f"clear {cname}"),
                  f"`self.{cname}` is filled while building but never reset: a materializer that built one spec and is then given another (fitted on other data) returns "
                  f"the values cached by the first call")


RULES = [("C18.R1", r1), ("C18.R2", r2), ("C18.R3", r3), ("C18.R4", r4), ("C18.R5", r5), ("C18.R6", r6), ("C18.R7", r7), ("C18.R8", r8)]
