"""C05 — output types, entry points and materializers agree with one another."""
from __future__ import annotations

import ast
from typing import Dict, List, Optional, Set, Tuple

from ..cfg import CFG, ENTRY, EXIT
from ..core import AnalysisError, FunctionInfo, Project, arg_for, dotted, is_const, kwarg, norm, param_names, walk_no_nested
from .. import sym
from ..util import assignments, count_negations, derived_names, header_calls, header_walk, mentions, returns_of, stmt_text
from . import shared
from .c02 import siblings_equal, _body_text
from .shared import MAT, NARWHALS, PANDAS

EXPLANATION = (
    "Static rules: (R1) SIBLING — the pandas and narwhals materializers' _encode_constant/_encode_numerical/"
    "_get_columns_for_term are identical and _encode_categorical differs only by the narwhals→pandas conversion and the "
    "output= renaming; (R2) EXHAUST — for every function that branches on the output string, the finite set of output "
    "strings that can reach it (propagated from each materializer's REGISTER_OUTPUTS through defaulting and renaming "
    "expressions) is handled by every branch chain without falling into a raise; (R3) FORWARD — every delegating call "
    "inside every entry point forwards data, context and the spec overrides; (R4) every concrete materializer registers a "
    "name, a non-empty output list and overrides all abstract encoder methods. Equality of the numbers across outputs / "
    "materializers is not decided."
)
ASSUMPTIONS = ["`x or y` yields x when x is a non-empty string; REGISTER_OUTPUTS literals are the only output strings a validated spec can carry"]

ALL_KEY = "<spec.output>"


def r1(ctx):
    siblings_equal(ctx, "C05.R1", ["_get_columns_for_term", "_encode_constant", "_encode_numerical"])
    P = ctx.project
    a, b = P.cls(PANDAS).methods["_encode_categorical"], P.cls(NARWHALS).methods["_encode_categorical"]
    from ..util import canon_ast
    ta = _body_text(a.node)
    nb = canon_ast(b.node)
    # whitelist 1: the narwhals→pandas conversion statement (either spelling)
    conv, rest = [], []
    for st in nb.body:
        if sym.pm_any(["if nw.dependencies.is_narwhals_series(values): values = values.to_pandas()",
                       "values = values.to_pandas() if nw.dependencies.is_narwhals_series(values) else values"], st) is not None:
            conv.append(st)
        else:
            rest.append(st)
    # whitelist 2: output= of the encode_contrasts call renames 'narwhals' to 'pandas' and is otherwise the spec's output
    ren_ok = False
    for st in rest:
        for c in ast.walk(st):
            if isinstance(c, ast.Call) and dotted(c.func) == "encode_contrasts":
                o = kwarg(c, "output")
                if o is not None and norm(sym.simplify(o, {"spec.output == 'narwhals'": True})) == "'pandas'" \
                        and norm(sym.simplify(o, {"spec.output == 'narwhals'": False})) == "spec.output":
                    ren_ok = True
                    c.keywords = [k for k in c.keywords if k.arg != "output"]
    tb3 = [norm(st) for st in rest]
    ctx.look()
    ctx.check(len(conv) == 1 and ren_ok and ta == tb3, "C05.R1", "pandas and narwhals `_encode_categorical` differ only by the pandas conversion and output renaming",
              b.where, ctx.construct(b, text="sibling _encode_categorical"),
              f"after removing the two whitelisted differences (conversion found={len(conv)}, output renaming ok={ren_ok}) the bodies differ: pandas={ta} narwhals={tb3}")


# ----------------------------------------------------------------------------- R2 output strings
def register_outputs(P: Project) -> Dict[str, List[str]]:
    out = {}
    for c in P.subclasses(MAT):
        v = c.assigns.get("REGISTER_OUTPUTS")
        if v is None:
            continue
        try:
            out[c.qualname] = list(ast.literal_eval(v))
        except Exception:
            raise AnalysisError(f"REGISTER_OUTPUTS of {c.qualname} is not a literal")
    return out


def _out_expr_kind(e: ast.AST, outvars: Set[str]) -> bool:
    t = norm(e)
    return t in outvars


def eval_output_expr(e: ast.AST, spec_vals: Set[str], env: Dict[str, Set[Optional[str]]]) -> Set[Optional[str]]:
    """Possible values of an output-valued expression; None stands for 'not given'."""
    if isinstance(e, ast.Constant):
        return {e.value}
    t = norm(e)
    if t in ("spec.output", "_spec.output", "model_spec.output"):
        return set(spec_vals)
    if isinstance(e, ast.Name) and e.id in env:
        return set(env[e.id])
    if isinstance(e, ast.BoolOp) and isinstance(e.op, ast.Or):
        out: Set[Optional[str]] = set()
        for i, v in enumerate(e.values):
            vals = eval_output_expr(v, spec_vals, env)
            truthy = {x for x in vals if x}
            out |= truthy
            if not (vals - truthy):
                return out
        out |= {None}
        return out
    if isinstance(e, ast.IfExp):
        res: Set[Optional[str]] = set()
        for s in spec_vals:
            tv = eval_output_test(e.test, s, {})
            if tv is None:
                res |= eval_output_expr(e.body, {s}, env) | eval_output_expr(e.orelse, {s}, env)
            else:
                res |= eval_output_expr(e.body if tv else e.orelse, {s}, env)
        return res
    raise AnalysisError(f"C05.R2: unmodelled output expression `{t}`")


OUTVARS = ("spec.output", "_spec.output", "model_spec.output", "output")


def eval_output_test(test: ast.AST, s: Optional[str], extra: Dict[str, Optional[str]]) -> Optional[bool]:
    """Truth of a test under output == s (for the expressions in OUTVARS); None when it does not concern the output."""
    t, neg = count_negations(test)
    val = None
    if isinstance(t, ast.Compare) and len(t.ops) == 1 and norm(t.left) in OUTVARS:
        c = t.comparators[0]
        try:
            lit = ast.literal_eval(c)
        except Exception:
            return None
        op = t.ops[0]
        if isinstance(op, (ast.Eq, ast.Is)):
            val = s == lit
        elif isinstance(op, (ast.NotEq, ast.IsNot)):
            val = s != lit
        elif isinstance(op, ast.In):
            val = s in lit
        elif isinstance(op, ast.NotIn):
            val = s not in lit
    elif isinstance(t, ast.BoolOp):
        vals = [eval_output_test(v, s, extra) for v in t.values]
        if all(v is not None for v in vals):
            val = all(vals) if isinstance(t.op, ast.And) else any(vals)
        elif isinstance(t.op, ast.And) and any(v is False for v in vals):
            val = False
        elif isinstance(t.op, ast.Or) and any(v is True for v in vals):
            val = True
    if val is None:
        return None
    return val ^ (neg % 2 == 1)


def output_chain_raises(P: Project, f: FunctionInfo, s: Optional[str]) -> List[ast.Raise]:
    """Raise statements reachable when the output is ``s`` that belong to an output dispatch (the raise sits
    under / after tests that all concern the output)."""
    cfg = CFG(f.node, prune=lambda test: eval_output_test(test, s, {}))
    out = []
    for st in cfg.stmts():
        if isinstance(st, ast.Raise):
            # is it guarded only by output tests (i.e. part of an output dispatch)?
            n, child = P.parent(st), st
            concerned = False
            while n is not None and n is not f.node:
                if isinstance(n, ast.If):
                    if any(norm(x) in OUTVARS for x in ast.walk(n.test)):
                        concerned = True
                    else:
                        if child in n.body or child in n.orelse:
                            # guarded by an unrelated test: only counts if an output test also guards it
                            pass
                child, n = n, P.parent(n)
            msg = norm(st).lower()
            if concerned or ("output" in msg and ("invalid" in msg or "unknown" in msg or "only implemented" in msg)):
                out.append(st)
    return out


def r2(ctx):
    P = ctx.project
    regs = register_outputs(P)
    ctx.floor("C05.R2", len(regs), 2, "materializers with REGISTER_OUTPUTS")
    everything: Set[str] = set()
    chains = 0
    for cq, outs in regs.items():
        everything |= set(outs)
        C = P.cls(cq)
        # _prepare_model_specs: default = REGISTER_OUTPUTS[0]; otherwise must be in REGISTER_OUTPUTS
        for name, m in C.methods.items():
            if not any(norm(x) == "spec.output" for x in ast.walk(m.node)):
                continue
            chains += 1
            for s in outs:
                ctx.look()
                bad = output_chain_raises(P, m, s)
                ctx.check(not bad, "C05.R2", f"{cq.split('.')[-1]}.{name} handles output {s!r}", m.where,
                          ctx.construct(m, text=f"output {s!r}"),
                          f"output {s!r} is registered for this materializer but falls into `{stmt_text(bad[0], 90) if bad else ''}`")
    prep = shared.spec_binder(P)   # today: the nested prepare_model_spec
    try:
        pouts = sym.outcomes(prep.node)
    except sym.Unmodelled as e:
        raise AnalysisError(f"C05.R2: prepare_model_spec cannot be summarised: {e}")
    mp_ = [p_ for p_ in param_names(prep.node) if p_ not in ("self", "cls")][0]
    A, B = f"{mp_}.output is None", f"{mp_}.output in self.REGISTER_OUTPUTS"
    dflt = sym.eval_under(pouts, {A: True}, kinds=("return", "fall"))
    bad_ = sym.eval_under(pouts, {A: False, B: False}, kinds=("return", "fall"))
    good = sym.eval_under(pouts, {A: False, B: True}, kinds=("return", "fall"))
    sets_default = lambda effs, v: any(sym.pm("overrides['output'] = self.REGISTER_OUTPUTS[0]", e) is not None for e in effs) or \
        (v is not None and "output=self.REGISTER_OUTPUTS[0]" in norm(v)) or (v is not None and "'output': self.REGISTER_OUTPUTS[0]" in norm(v))
    ok = bool(dflt) and all(sets_default(effs, v) for _k, v, effs in dflt) and not bad_ and bool(good) \
        and not any(sets_default(effs, v) for _k, v, effs in good)
    ctx.check(ok, "C05.R2", "a spec's output is defaulted to REGISTER_OUTPUTS[0] or validated against REGISTER_OUTPUTS", prep.where,
              ctx.construct(prep, text="output defaulting"), "the working spec's output must be one of the materializer's registered outputs")
    # encode_contrasts: reaching outputs through its callers
    ec = P.func("formulaic.transforms.contrasts.encode_contrasts")
    callers = []
    for f in P.functions.values():
        for c in walk_no_nested(f.node):
            if isinstance(c, ast.Call) and (dotted(c.func) or "") == "encode_contrasts":
                callers.append((f, c))
    ctx.floor("C05.R2", len(callers), 4, "encode_contrasts call sites")
    reaching: Set[str] = set()
    witness: Dict[str, str] = {}
    for f, c in callers:
        a = kwarg(c, "output")
        owner = f
        while owner is not None and owner.cls is None:
            owner = owner.parent
        if owner is not None and owner.cls is not None and owner.cls.qualname in regs:
            spec_vals = set(regs[owner.cls.qualname])
        else:
            spec_vals = set(everything)  # encoder closures run under whichever materializer evaluates the factor
        given = eval_output_expr(a, spec_vals, {}) if a is not None else {None}
        # output = output or _spec.output or "pandas"
        res = set()
        for g in given:
            if g:
                res.add(g)
            else:
                res |= {s for s in spec_vals if s} or {"pandas"}
        for s in res:
            witness.setdefault(s, f"{f.qualname}:{c.lineno}")
        reaching |= res
    first = [st for st in walk_no_nested(ec.node) if isinstance(st, ast.Assign) and norm(st.targets[0]) == "output"]
    ok = bool(first) and norm(first[0].value) == "output or _spec.output or 'pandas'"
    ctx.check(ok, "C05.R2", "encode_contrasts defaults its output from the spec, then 'pandas'", ec.where, ctx.construct(ec, text="output default"),
              f"output defaulting is `{norm(first[0].value) if first else None}`")
    targets = [ec, P.method("formulaic.transforms.contrasts.Contrasts", "apply")]
    for tf in targets:
        chains += 1
        for s in sorted(reaching):
            ctx.look()
            bad = output_chain_raises(P, tf, s)
            ctx.check(not bad, "C05.R2", f"{tf.qualname.split('.')[-1]} handles output {s!r}", tf.where, ctx.construct(tf, text=f"output {s!r}"),
                      f"output {s!r} reaches {tf.name} (e.g. via {witness.get(s)}) but falls into `{stmt_text(bad[0], 100) if bad else ''}`")
    ctx.floor("C05.R2", chains, 8, "functions dispatching on the output string")
    ap = targets[1]
    c = [x for x in ast.walk(ec.node) if isinstance(x, ast.Call) and isinstance(x.func, ast.Attribute) and x.func.attr == "apply"]
    ok = len(c) == 1 and kwarg(c[0], "output") is not None and norm(kwarg(c[0], "output")) == "output"
    ctx.check(ok, "C05.R2", "encode_contrasts hands its resolved output to Contrasts.apply", ec.where, ctx.construct(ec, text="apply(output=)"),
              "contrasts.apply(...) must receive output=output")


# ----------------------------------------------------------------------------- R3
def r3(ctx):
    P = ctx.project
    forward_data_context(ctx, "C05.R3", "data")
    forward_data_context(ctx, "C05.R3", "context")
    shared.forward_rule(ctx, "C05.R3", "drop_rows")
    # spec overrides: with a non-empty **kw every returning path passes it on
    n = 0
    for fi in shared.entry_points(P):
        kw = fi.node.args.kwarg.arg if fi.node.args.kwarg else None
        if kw is None:
            continue
        n += 1
        ctx.look()

        def prune(test, _kw=kw):
            t, neg = count_negations(test)
            if isinstance(t, ast.Name) and t.id == _kw:
                return neg % 2 == 0
            return None

        cfg = CFG(fi.node, prune=prune)

        def gate(st, _kw=kw):
            return any(any(k.arg is None and isinstance(k.value, ast.Name) and k.value.id == _kw for k in c.keywords) for c in header_calls(st))

        w = cfg.must_pass(gate)
        ctx.check(w is None, "C05.R3", f"{fi.qualname} applies its **{kw} on every path", fi.where, ctx.construct(fi, text=f"**{kw}"),
                  f"a returning path ignores the caller's spec overrides **{kw}", w)
    ctx.floor("C05.R3", n, 5, "entry points taking spec overrides")


def forward_data_context(ctx, rule: str, param: str):
    P = ctx.project
    n_calls = 0
    gm = P.func("formulaic.model_spec.ModelSpec.get_materializer").node
    init = P.func(MAT + ".__init__").node
    for fi in shared.entry_points(P) + [P.func("formulaic.model_spec.ModelSpec.get_materializer")]:
        if param not in param_names(fi.node):
            continue
        dn = derived_names(fi.node, [param])
        ctors = shared.materializer_ctor_names(fi.node)
        for c in ast.walk(fi.node):
            if not isinstance(c, ast.Call):
                continue
            formal_fn, bound, label = None, True, None
            if isinstance(c.func, ast.Attribute) and c.func.attr == "get_model_matrix":
                kind = shared.receiver_kind(P, fi, c)
                if kind == "spec":
                    formal_fn, label = P.func("formulaic.model_spec.ModelSpec.get_model_matrix").node, ".get_model_matrix"
            elif isinstance(c.func, ast.Attribute) and c.func.attr == "get_materializer":
                formal_fn, label = gm, ".get_materializer"
            elif isinstance(c.func, ast.Name) and c.func.id in ctors:
                formal_fn, label = init, "materializer(...)"
            elif isinstance(c.func, ast.Name) and c.func.id == "model_matrix":
                formal_fn, bound, label = P.func("formulaic.sugar.model_matrix").node, False, "model_matrix"
            if formal_fn is None:
                continue
            n_calls += 1
            ctx.look()
            a = arg_for(c, formal_fn, param, bound_self=bound)
            inst = f"{fi.qualname} -> {label} forwards `{param}`"
            if a is None:
                ctx.fail(rule, inst, fi.module.line(c), ctx.construct(fi, c), f"`{param}` is not passed on; the callee uses its default")
            else:
                ctx.check(mentions(a, dn), rule, inst, fi.module.line(c), ctx.construct(fi, c),
                          f"value bound to `{param}` is `{norm(a)}`, not derived from the caller's `{param}`")
    ctx.floor(rule, n_calls, 8, f"delegating calls binding `{param}`")


# ----------------------------------------------------------------------------- R4
def r4(ctx):
    P = ctx.project
    base = P.cls(MAT)
    abstract = [n for n, m in base.methods.items() if any("abstractmethod" in d for d in m.decorators())]
    ctx.floor("C05.R4", len(abstract), 4, "abstract materializer methods")
    subs = P.subclasses(MAT)
    ctx.floor("C05.R4", len(subs), 2, "concrete materializers")
    for c in subs:
        ctx.look()
        nm = c.assigns.get("REGISTER_NAME")
        outs = c.assigns.get("REGISTER_OUTPUTS")
        ok = nm is not None and isinstance(nm, ast.Constant) and isinstance(nm.value, str) and nm.value \
            and outs is not None and isinstance(outs, (ast.Tuple, ast.List)) and len(outs.elts) >= 1
        ctx.check(ok, "C05.R4", f"{c.qualname.split('.')[-1]} registers a name and a non-empty output list", c.where,
                  ctx.construct(c.qualname, text="registration"), "REGISTER_NAME / REGISTER_OUTPUTS missing or empty")
        missing = [a for a in abstract if a not in c.methods]
        ctx.check(not missing, "C05.R4", f"{c.qualname.split('.')[-1]} overrides every abstract method", c.where,
                  ctx.construct(c.qualname, text="abstract methods"), f"not overridden: {missing}")
    names = [c.assigns["REGISTER_NAME"].value for c in subs if isinstance(c.assigns.get("REGISTER_NAME"), ast.Constant)]
    ctx.check(len(names) == len(set(names)), "C05.R4", "materializer names are unique", base.where, "formulaic.materializers:names",
              f"duplicate REGISTER_NAME among {names}")


def r5(ctx):
    """Materializer dispatch: names resolve through the registry; for data, explicitly registered input types win, highest precedence
    first, and a requested output restricts the choice to materializers registering that output."""
    P = ctx.project
    META = "formulaic.materializers.base.FormulaMaterializerMeta"
    ctx.look(6)
    from ..expect import contains
    reg = P.method(META, "__register_implementation__")
    ok, why = contains(P, reg, """
        def __register_implementation__(cls):
            if "REGISTER_NAME" in cls.__dict__ and cls.REGISTER_NAME:
                cls.REGISTERED_NAMES[cls.REGISTER_NAME] = cls
                if "REGISTER_INPUTS" in cls.__dict__:
                    for input_type in cls.REGISTER_INPUTS:
                        cls.REGISTERED_INPUTS[input_type] = sorted(cls.REGISTERED_INPUTS[input_type] + [cls], key=lambda x: x.REGISTER_PRECEDENCE, reverse=True)
    """)
    ctx.check(ok, "C05.R5", "a materializer is registered under its own name and, per input type, in descending precedence", reg.where, ctx.construct(reg, text="registration"),
              f"__register_implementation__: {why}")
    fm = P.method(META, "for_materializer")
    ok, why = contains(P, fm, """
        def for_materializer(cls, materializer):
            if isinstance(materializer, str):
                if materializer not in cls.REGISTERED_NAMES:
                    raise FormulaMaterializerNotFoundError(materializer)
                return cls.REGISTERED_NAMES[materializer]
            if isinstance(materializer, FormulaMaterializer):
                return type(materializer)
            if not inspect.isclass(materializer) or not issubclass(materializer, FormulaMaterializer):
                raise FormulaMaterializerInvalidError("")
            return materializer
    """)
    ctx.check(ok, "C05.R5", "for_materializer: name → registry entry (or NotFound), instance → its class, anything else must be a subclass", fm.where,
              ctx.construct(fm, text="for_materializer"), f"for_materializer: {why}")
    fd = P.method(META, "for_data")
    ok, why = contains(P, fd, """
        def for_data(cls, data, output=None):
            datacls = data.__class__
            input_type = f"{datacls.__module__}.{datacls.__qualname__}"
            materializers_supporting_input = []
            if input_type in cls.REGISTERED_INPUTS:
                materializers_supporting_input.extend(cls.REGISTERED_INPUTS[input_type])
            if output is None and materializers_supporting_input:
                return materializers_supporting_input[0]
            for materializer in sorted(set(cls.REGISTERED_NAMES.values()), key=lambda x: x.REGISTER_PRECEDENCE, reverse=True):
                if materializer.SUPPORTS_INPUT(data):
                    materializers_supporting_input.append(materializer)
            if not materializers_supporting_input:
                raise FormulaMaterializerNotFoundError("")
            if output is None:
                return materializers_supporting_input[0]
            for materializer in materializers_supporting_input:
                if output in materializer.REGISTER_OUTPUTS:
                    return materializer
            raise FormulaMaterializerNotFoundError("")
    """)
    ctx.check(ok, "C05.R5", "for_data: explicit input registrations first, then SUPPORTS_INPUT fallbacks by precedence; first one offering the requested output", fd.where,
              ctx.construct(fd, text="for_data"), f"for_data dispatch: {why}")
    gm = P.method("formulaic.model_spec.ModelSpec", "get_materializer")
    ok, why = contains(P, gm, """
        def get_materializer(self, data, context=None):
            if self.materializer is None:
                materializer = FormulaMaterializer.for_data(data)
            else:
                materializer = FormulaMaterializer.for_materializer(self.materializer)
            return materializer(data, context=context, **(self.materializer_params or {}))
    """)
    ctx.check(ok, "C05.R5", "a spec uses its recorded materializer (and parameters), else the one registered for the data", gm.where, ctx.construct(gm, text="get_materializer"),
              f"ModelSpec.get_materializer: {why}")
    pi = P.method("formulaic.model_spec.ModelSpec", "__post_init__")
    ok, why = contains(P, pi, """
        def __post_init__(self):
            if self.materializer is not None and not isinstance(self.materializer, str):
                self.__dict__["materializer"] = FormulaMaterializer.for_materializer(self.materializer).REGISTER_NAME
            ...
    """)
    ctx.check(ok, "C05.R5", "a materializer given as class/instance is recorded by its registered name", pi.where, ctx.construct(pi, text="materializer name"),
              f"ModelSpec.__post_init__ must normalise `materializer` to its REGISTER_NAME: {why}")
    fs = P.method("formulaic.model_spec.ModelSpec", "from_spec")
    ok, why = contains(P, fs, """
        def from_spec(cls, spec, *, context=None, **attrs):
            def prepare_model_spec(obj):
                if isinstance(obj, ModelMatrix):
                    obj = obj.model_spec
                if isinstance(obj, ModelSpec):
                    return obj.update(**attrs)
                formula = Formula.from_spec(obj, context=context)
                if isinstance(formula, StructuredFormula):
                    return formula._map(prepare_model_spec, as_type=ModelSpecs)
                return ModelSpec(formula=formula, **attrs)
    """)
    ctx.check(ok, "C05.R5", "every entry point normalises its spec argument the same way (matrix → its spec; spec → updated copy; anything else → Formula → spec(s))", fs.where,
              ctx.construct(fs, text="from_spec"), f"ModelSpec.from_spec normalisation: {why}")



def r6(ctx):
    """sparse and dense outputs hold the same numbers: contrast codings execute the same value-affecting statements for both (= C11.R6)."""
    from .shared import relabel
    from . import c11
    relabel(ctx, "C05.R6", c11.r6)


def _r6_parts():
    from .shared import relabel
    from . import c11
    from .shared import relabel_parts
    return relabel_parts("C05.R6", c11.r6)


r6.parts = _r6_parts


def f1(ctx):
    """generic same-name parameter forwarding over this property's modules (see shared.generic_forwarding)."""
    from . import shared as _sh
    _sh.generic_forwarding(ctx, "C05.F1", _sh.PROPERTY_MODULES["C05"])



def s1(ctx):
    """shared mechanism: every entry point builds from specs that own their state — a second call through any entry point starts from the same state (= C18.R1)"""
    from .shared import relabel
    from . import c18
    relabel(ctx, "C05.S1", c18.r1)


def _s1_parts():
    from .shared import relabel
    from . import c18
    from .shared import relabel_parts
    return relabel_parts("C05.S1", c18.r1)


s1.parts = _s1_parts


RULES = [("C05.R1", r1), ("C05.R2", r2), ("C05.R3", r3), ("C05.R4", r4), ("C05.R5", r5), ("C05.R6", r6), ("C05.F1", f1), ("C05.S1", s1)]
