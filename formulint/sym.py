"""formulint.sym — path-wise symbolic summaries of functions and structural pattern matching with metavariables.

``outcomes(fn)`` walks the statement tree of a function along every path (bounded) and returns, for every way the
function can end (return / raise / yield / falling off the end), the *value expression with all local variables
substituted by their defining expressions on that path* together with the branch conditions taken.  The summary is
insensitive to: temporaries, early-return versus nested if/else, conditional expression versus if-statement,
annotations, ``cast``.  Rules state their expectation on the summary (with ``pm`` patterns, whose metavariables make
them insensitive to the spelling of local names) instead of on the statement text.

Loops are summarised once: the loop target and the variables carried around the loop stay opaque names inside and
after the loop; outcomes raised inside a loop carry the loop in ``loops``.
"""
from __future__ import annotations

import ast
import copy
from dataclasses import dataclass, field
from typing import Callable, Dict, List, Optional, Sequence, Tuple

from .core import AnalysisError, dotted, norm
from .normalize import as_test, negate


# re-exported for rule modules (sym.negate / sym.as_test)
__all_reexport__ = (as_test, negate)


# bare callee name -> positional parameter names, for project functions whose parameter list is unambiguous (set by cli)
SIGNATURES: Dict[str, List[str]] = {}
DEFAULTS: Dict[str, Dict[str, ast.Constant]] = {}   # constant parameter defaults of those callees: an argument spelled out at its default matches its absence


class Unmodelled(Exception):
    pass


@dataclass
class Outcome:
    kind: str  # return | raise | yield | fall | continue | break
    value: Optional[ast.expr]
    conds: List[Tuple[ast.expr, bool]]
    stmt: Optional[ast.stmt]
    env: Dict[str, ast.expr]
    loops: Tuple[ast.stmt, ...] = ()
    effects: List[ast.stmt] = field(default_factory=list)  # side-effecting statements executed on the path (substituted)

    def cond_text(self) -> List[str]:
        return [norm(c if pol else as_test(negate(c))) for c, pol in self.conds]

    def __repr__(self):
        return f"<{self.kind} {norm(self.value) if self.value is not None else None} if {self.cond_text()}>"


class _Sub(ast.NodeTransformer):
    """Substitute local names by their (already substituted) definitions; strip cast()."""

    def __init__(self, env: Dict[str, ast.expr], bound: frozenset = frozenset()):
        self.env = env
        self.bound = bound

    def visit_Name(self, n):
        if isinstance(n.ctx, ast.Load) and n.id in self.env and n.id not in self.bound:
            return copy.deepcopy(self.env[n.id])
        return n

    def visit_Call(self, n):
        self.generic_visit(n)
        if dotted(n.func) in ("cast", "typing.cast") and len(n.args) == 2 and not n.keywords:
            return n.args[1]
        # a local bound to a lambda and applied: (lambda x: E)(a) is E[a/x] for plain positional parameters
        f = n.func
        if isinstance(f, ast.Lambda) and not n.keywords and not any(isinstance(a, ast.Starred) for a in n.args):
            a = f.args
            if not (a.vararg or a.kwarg or a.kwonlyargs or a.posonlyargs or a.defaults) and len(a.args) == len(n.args):
                binding = {x.arg: v for x, v in zip(a.args, n.args)}
                uses = {p: sum(1 for m in ast.walk(f.body) if isinstance(m, ast.Name) and m.id == p) for p in binding}
                simple = all(isinstance(v, (ast.Name, ast.Constant, ast.Attribute)) or uses[p] <= 1 for p, v in binding.items())
                inner_bound = {m.id for m in ast.walk(f.body) if isinstance(m, ast.Name) and isinstance(m.ctx, ast.Store)} | \
                    {x.arg for m in ast.walk(f.body) if isinstance(m, ast.Lambda) for x in m.args.args}
                if simple and not (inner_bound & set(binding)) and not any(
                        isinstance(m, ast.Name) and m.id in inner_bound for v in binding.values() for m in ast.walk(v)):
                    return _Sub(binding).visit(copy.deepcopy(f.body))
        return n

    def _scoped(self, n, targets):
        names = {x.id for t in targets for x in ast.walk(t) if isinstance(x, ast.Name)}
        sub = _Sub(self.env, self.bound | frozenset(names))
        for f, v in ast.iter_fields(n):
            if isinstance(v, list):
                setattr(n, f, [sub.visit(x) if isinstance(x, ast.AST) else x for x in v])
            elif isinstance(v, ast.AST):
                setattr(n, f, sub.visit(v))
        return n

    def visit_Lambda(self, n):
        a = n.args
        names = {x.arg for x in list(a.args) + list(a.kwonlyargs) + list(a.posonlyargs)}
        n.body = _Sub(self.env, self.bound | frozenset(names)).visit(n.body)
        return n

    def visit_ListComp(self, n):
        return self._scoped(n, [g.target for g in n.generators])

    visit_SetComp = visit_GeneratorExp = visit_DictComp = visit_ListComp


def subst(e: ast.AST, env: Dict[str, ast.expr]) -> ast.AST:
    from .normalize import _Consumers
    return ast.fix_missing_locations(_Consumers().visit(_Sub(env).visit(copy.deepcopy(e))))


def _split_ifexp(v: ast.expr, depth: int = 0):
    """`a if c else b` at the top of a returned value is two outcomes."""
    if isinstance(v, ast.IfExp) and depth < 6:
        out = []
        for extra, x in _split_ifexp(v.body, depth + 1):
            out.append(([(v.test, True)] + extra, x))
        for extra, x in _split_ifexp(v.orelse, depth + 1):
            out.append(([(v.test, False)] + extra, x))
        return out
    return [([], v)]


def _norm_conds(conds):
    """Conditions as (positive atom, polarity): `not x` flips, `a and b` taken / `a or b` not taken are split,
    negative comparison operators are turned into their positive counterpart."""
    out = []
    for c, pol in conds:
        c = as_test(c)
        if isinstance(c, ast.UnaryOp) and isinstance(c.op, ast.Not):
            out += _norm_conds([(c.operand, not pol)])
        elif isinstance(c, ast.BoolOp) and ((isinstance(c.op, ast.And) and pol) or (isinstance(c.op, ast.Or) and not pol)):
            out += _norm_conds([(v, pol) for v in c.values])
        elif isinstance(c, ast.Compare) and len(c.ops) == 1 and isinstance(c.ops[0], (ast.NotEq, ast.IsNot, ast.NotIn)):
            out.append((negate(c), not pol))
        else:
            out.append((c, pol))
    seen, res = set(), []
    for c, pol in out:
        k = (norm(c), pol)
        if k not in seen:
            seen.add(k)
            res.append((c, pol))
    return res


def _const_truth(e: ast.expr) -> Optional[bool]:
    """Truth of a condition that is decided by constants alone (`1 == 1`)."""
    if isinstance(e, ast.Constant):
        return bool(e.value)
    if isinstance(e, ast.UnaryOp) and isinstance(e.op, ast.Not):
        t = _const_truth(e.operand)
        return None if t is None else not t
    if isinstance(e, ast.Compare) and len(e.ops) == 1 and isinstance(e.ops[0], (ast.Is, ast.IsNot)) and isinstance(e.comparators[0], ast.Constant) \
            and e.comparators[0].value is None and isinstance(e.left, (ast.Lambda, ast.Constant, ast.Dict, ast.List, ast.Tuple, ast.Set, ast.JoinedStr)):
        is_none = isinstance(e.left, ast.Constant) and e.left.value is None
        return is_none if isinstance(e.ops[0], ast.Is) else not is_none
    if isinstance(e, ast.Compare) and len(e.ops) == 1 and isinstance(e.left, ast.Constant) and isinstance(e.comparators[0], ast.Constant):
        a, b = e.left.value, e.comparators[0].value
        op = e.ops[0]
        try:
            if isinstance(op, ast.Eq):
                return a == b
            if isinstance(op, ast.NotEq):
                return a != b
        except Exception:
            return None
    return None


def _assigned(stmts: Sequence[ast.stmt]) -> set:
    out = set()
    for s in stmts:
        for n in ast.walk(s):
            if isinstance(n, ast.Name) and isinstance(n.ctx, (ast.Store, ast.Del)):
                out.add(n.id)
    return out


def _mutated_bases(st: ast.stmt) -> set:
    """Names whose object is mutated in place by the statement (x[k] = v, x.a = v, x.append(...))."""
    out = set()
    for n in ast.walk(st):
        if isinstance(n, (ast.Assign, ast.AugAssign, ast.Delete, ast.AnnAssign)):
            tg = n.targets if isinstance(n, (ast.Assign, ast.Delete)) else [n.target]
            for t in tg:
                if isinstance(t, (ast.Subscript, ast.Attribute)):
                    b = t
                    while isinstance(b, (ast.Subscript, ast.Attribute)):
                        b = b.value
                    if isinstance(b, ast.Name):
                        out.add(b.id)
    return out


def _own_breaks(loop) -> List[ast.Break]:
    """The `break` statements that leave ``loop`` itself (not those of loops nested in it)."""
    out = []

    def walk(stmts):
        for s_ in stmts:
            if isinstance(s_, ast.Break):
                out.append(s_)
            elif isinstance(s_, (ast.For, ast.AsyncFor, ast.While)):
                walk(s_.orelse)
            elif isinstance(s_, (ast.FunctionDef, ast.AsyncFunctionDef, ast.ClassDef)):
                continue
            else:
                for f_ in ("body", "orelse", "finalbody"):
                    walk(getattr(s_, f_, []) or [])
                for h in getattr(s_, "handlers", []) or []:
                    walk(h.body)
    walk(loop.body)
    return out


def _break_flags(loop) -> Dict[str, List[ast.expr]]:
    """Locals that are assigned inside ``loop`` ONLY in a block that ends with a `break` of this loop (and not in its else
    clause): name -> the values assigned."""
    inside: Dict[str, List[Tuple[ast.expr, bool]]] = {}

    def walk(stmts, in_nested_loop):
        ends_with_break = bool(stmts) and isinstance(stmts[-1], ast.Break) and not in_nested_loop
        for s_ in stmts:
            if isinstance(s_, (ast.Assign, ast.AnnAssign)) and getattr(s_, "value", None) is not None:
                tg = s_.targets if isinstance(s_, ast.Assign) else [s_.target]
                for t_ in tg:
                    for nm in ast.walk(t_):
                        if isinstance(nm, ast.Name) and isinstance(nm.ctx, ast.Store):
                            inside.setdefault(nm.id, []).append((s_.value, ends_with_break and isinstance(t_, ast.Name)))
            elif isinstance(s_, (ast.AugAssign, ast.Delete)):
                for nm in ast.walk(s_):
                    if isinstance(nm, ast.Name) and isinstance(nm.ctx, (ast.Store, ast.Del)):
                        inside.setdefault(nm.id, []).append((ast.Constant(value=None), False))
            if isinstance(s_, (ast.For, ast.AsyncFor, ast.While)):
                for nm in ast.walk(getattr(s_, "target", ast.Constant(value=None))):
                    if isinstance(nm, ast.Name):
                        inside.setdefault(nm.id, []).append((ast.Constant(value=None), False))
                walk(s_.body, True)
                walk(s_.orelse, in_nested_loop)
            elif isinstance(s_, (ast.FunctionDef, ast.AsyncFunctionDef, ast.ClassDef)):
                continue
            else:
                for f_ in ("body", "orelse", "finalbody"):
                    b_ = getattr(s_, f_, None)
                    if isinstance(b_, list) and b_ and isinstance(b_[0], ast.stmt):
                        walk(b_, in_nested_loop)
                for h in getattr(s_, "handlers", []) or []:
                    walk(h.body, in_nested_loop)
                for it in getattr(s_, "items", []) or []:
                    if getattr(it, "optional_vars", None) is not None:
                        for nm in ast.walk(it.optional_vars):
                            if isinstance(nm, ast.Name):
                                inside.setdefault(nm.id, []).append((ast.Constant(value=None), False))
    walk(loop.body, False)
    for nm in ast.walk(getattr(loop, "target", ast.Constant(value=None))):
        if isinstance(nm, ast.Name):
            inside.setdefault(nm.id, []).append((ast.Constant(value=None), False))
    else_assigned = _assigned(loop.orelse)
    return {n: [v for v, _ in vs] for n, vs in inside.items() if all(ok for _, ok in vs) and n not in else_assigned}


MUTATORS = {"append", "add", "update", "extend", "insert", "pop", "remove", "clear", "setdefault", "discard", "sort", "reverse",
            "popitem", "fill"}


class _Walker:
    def __init__(self, fn: ast.AST, max_paths: int):
        self.fn = fn
        self.max_paths = max_paths
        self.out: List[Outcome] = []

    def run(self) -> List[Outcome]:
        body = self.fn.body if not isinstance(self.fn, ast.Lambda) else [ast.Return(value=self.fn.body)]
        if body and isinstance(body[0], ast.Expr) and isinstance(body[0].value, ast.Constant) and isinstance(body[0].value.value, str):
            body = body[1:]
        self.block(list(body), {}, [], (), [], final=True)
        return self.out

    def emit(self, kind, value, conds, st, env, loops, effects):
        for c, pol in conds:
            t = _const_truth(c)
            if t is not None and t != pol:
                return  # infeasible path
        conds = _norm_conds([(c, pol) for c, pol in conds if _const_truth(c) is None])
        for c, pol in conds:   # … and again atom by atom (`x is not None and …` with x bound to None)
            t = _const_truth(c)
            if t is not None and t != pol:
                return
        conds = [(c, pol) for c, pol in conds if _const_truth(c) is None]
        if len(self.out) >= self.max_paths:
            raise Unmodelled(f"more than {self.max_paths} paths")
        self.out.append(Outcome(kind, value, list(conds), st, dict(env), tuple(loops), list(effects)))

    def block(self, stmts, env, conds, loops, effects, final=False, after=None):
        """Walk ``stmts``; ``after`` is a continuation (list of (stmts, final)) run when the block falls through."""
        env = dict(env)
        effects = list(effects)
        for i, st in enumerate(stmts):
            rest = stmts[i + 1:]
            if isinstance(st, (ast.FunctionDef, ast.AsyncFunctionDef, ast.ClassDef, ast.Import, ast.ImportFrom, ast.Pass, ast.Global, ast.Nonlocal)):
                if isinstance(st, (ast.FunctionDef, ast.ClassDef)):
                    env.pop(st.name, None)
                continue
            if isinstance(st, ast.Return):
                if st.value is None:
                    self.emit("return", None, conds, st, env, loops, effects)
                    return
                for extra, v in _split_ifexp(subst(st.value, env)):
                    self.emit("return", v, conds + extra, st, env, loops, effects)
                return
            if isinstance(st, ast.Raise):
                self.emit("raise", subst(st.exc, env) if st.exc is not None else None, conds, st, env, loops, effects)
                return
            if isinstance(st, (ast.Continue, ast.Break)):
                self.emit("continue" if isinstance(st, ast.Continue) else "break", None, conds, st, env, loops, effects)
                return
            if isinstance(st, ast.If):
                test = subst(st.test, env)
                cont = [(rest, final)] + (after or [])
                self.block(list(st.body), env, conds + [(test, True)], loops, effects, after=cont)
                self.block(list(st.orelse), env, conds + [(test, False)], loops, effects, after=cont)
                return
            if isinstance(st, (ast.Assign, ast.AnnAssign)):
                value = st.value
                targets = st.targets if isinstance(st, ast.Assign) else [st.target]
                if value is None:
                    continue
                v = subst(value, env)
                # `a, b = X, Y`: both right-hand sides are evaluated before either name is bound
                if len(targets) == 1 and isinstance(targets[0], (ast.Tuple, ast.List)) and isinstance(v, (ast.Tuple, ast.List)) and len(v.elts) == len(targets[0].elts) \
                        and all(isinstance(t, ast.Name) for t in targets[0].elts) and not any(isinstance(x, ast.Starred) for x in v.elts):
                    for t, x in zip(targets[0].elts, v.elts):
                        env[t.id] = x
                    continue
                simple = all(isinstance(t, ast.Name) for t in targets)
                for t in targets:
                    if isinstance(t, ast.Name):
                        env[t.id] = v
                    else:
                        for nm in ast.walk(t):
                            if isinstance(nm, ast.Name) and isinstance(nm.ctx, ast.Store):
                                env.pop(nm.id, None)
                if not simple:
                    self._effect(st, env, effects, skip_targets=True)
                elif any(isinstance(n, ast.Yield) for n in ast.walk(value)):
                    pass
                continue
            if isinstance(st, ast.AugAssign):
                if isinstance(st.target, ast.Name):
                    cur = env.get(st.target.id, ast.Name(id=st.target.id, ctx=ast.Load()))
                    env[st.target.id] = ast.fix_missing_locations(ast.BinOp(left=copy.deepcopy(cur), op=st.op, right=subst(st.value, env)))
                else:
                    self._effect(st, env, effects)
                continue
            if isinstance(st, ast.Expr):
                if isinstance(st.value, (ast.Yield, ast.YieldFrom)):
                    y = st.value
                    self.emit("yield" if isinstance(y, ast.Yield) else "yield_from", subst(y.value, env) if y.value is not None else None,
                              conds, st, env, loops, effects)
                    continue
                self._effect(st, env, effects)
                continue
            if isinstance(st, (ast.For, ast.AsyncFor, ast.While)):
                carried = _assigned(st.body) | _assigned(st.orelse)
                inner_env = {k: v for k, v in env.items() if k not in carried}
                if isinstance(st, ast.While):
                    head = subst(st.test, inner_env)
                else:
                    head = subst(st.iter, env)
                    for nm in ast.walk(st.target):
                        if isinstance(nm, ast.Name):
                            inner_env.pop(nm.id, None)
                # mutations of containers inside the loop make their definitions stale
                for s in st.body:
                    for b in _mutated_bases(s) | self._call_mutated(s):
                        inner_env.pop(b, None)
                        env.pop(b, None)
                marker = copy.copy(st)
                marker._sym_head = head  # type: ignore[attr-defined]
                marker._sym_env = dict(env)  # type: ignore[attr-defined]
                marker._sym_orig = st  # type: ignore[attr-defined]
                marker._sym_pre = len(effects)  # type: ignore[attr-defined]
                sub = _Walker(self.fn, self.max_paths)
                sub.out = self.out
                sub.block(list(st.body), inner_env, conds, loops + (marker,), effects, after=[])
                for k in carried:
                    env.pop(k, None)
                if not isinstance(st, ast.While):
                    for nm in ast.walk(st.target):
                        if isinstance(nm, ast.Name):
                            env.pop(nm.id, None)
                eff = copy.copy(st)
                eff._sym_head = head  # type: ignore[attr-defined]
                effects.append(eff)
                breaks = _own_breaks(st)
                if not breaks and not st.orelse:
                    continue
                cont_after = after
                if not breaks:
                    # a loop that cannot be left early always runs its else clause
                    self.block(list(st.orelse) + rest, env, conds, loops, effects, final=final, after=cont_after)
                    return
                # the loop either runs to completion (then its else clause runs) or is left by `break`.  A local that is assigned
                # inside the loop only on the way to a `break` (a "found"/"ok" flag) still has its pre-loop value on completion and
                # the assigned constant after a break: both spellings — flag and for…else — give the same two continuations
                self._n_break_loops = getattr(self, "_n_break_loops", 0) + 1
                atom = ast.Name(id="loop_completed" if self._n_break_loops == 1 else f"loop_completed_{self._n_break_loops}", ctx=ast.Load())
                flags = _break_flags(st)
                env_c, env_b = dict(env), dict(env)
                body_assigned = _assigned(st.body)
                for nme in _assigned(st.orelse) - body_assigned:   # bound only by the else clause: untouched until it runs (if it runs)
                    if nme in marker._sym_env:
                        env_c[nme] = marker._sym_env[nme]
                        env_b[nme] = marker._sym_env[nme]
                for nme, consts in flags.items():
                    if nme in marker._sym_env:
                        env_c[nme] = marker._sym_env[nme]
                    texts = {norm(c) for c in consts}
                    if len(texts) == 1 and all(isinstance(c, ast.Constant) for c in consts):
                        env_b[nme] = consts[0]
                self.block(list(st.orelse) + rest, env_c, conds + [(atom, True)], loops, effects, final=final, after=cont_after)
                self.block(list(rest), env_b, conds + [(atom, False)], loops, effects, final=final, after=cont_after)
                return
            if isinstance(st, (ast.With, ast.AsyncWith)):
                for it in st.items:
                    if it.optional_vars is not None:
                        for nm in ast.walk(it.optional_vars):
                            if isinstance(nm, ast.Name):
                                env.pop(nm.id, None)
                self.block(list(st.body), env, conds, loops, effects, final=final, after=[(rest, final)] + (after or []))
                return
            if isinstance(st, ast.Try) or st.__class__.__name__ == "TryStar":
                cont = [(list(st.orelse) + list(st.finalbody) + rest, final)] + (after or [])
                self.block(list(st.body), env, conds, loops, effects, after=cont)
                henv = {k: v for k, v in env.items() if k not in _assigned(st.body)}
                for h in st.handlers:
                    tag = ast.Name(id="except_" + (norm(h.type) if h.type is not None else "BaseException").replace(".", "_"), ctx=ast.Load())
                    e2 = dict(henv)
                    if h.name:
                        e2.pop(h.name, None)
                    self.block(list(h.body), e2, conds + [(tag, True)], loops, effects, after=[(list(st.finalbody) + rest, final)] + (after or []))
                return
            if isinstance(st, (ast.Assert, ast.Delete)):
                if isinstance(st, ast.Delete):
                    for t in st.targets:
                        if isinstance(t, ast.Name):
                            env.pop(t.id, None)
                        else:
                            self._effect(st, env, effects)
                continue
            raise Unmodelled(f"statement kind {type(st).__name__}")
        # fell through
        if after:
            (nxt, nfinal), more = after[0], after[1:]
            self.block(list(nxt), env, conds, loops, effects, final=nfinal, after=more)
        else:
            self.emit("fall", None, conds, None, env, loops, effects)

    def _call_mutated(self, st: ast.stmt) -> set:
        out = set()
        for n in ast.walk(st):
            if isinstance(n, ast.Call) and isinstance(n.func, ast.Attribute) and n.func.attr in MUTATORS:
                b = n.func.value
                while isinstance(b, (ast.Subscript, ast.Attribute)):
                    b = b.value
                if isinstance(b, ast.Name):
                    out.add(b.id)
        return out

    def _effect(self, st, env, effects, skip_targets=False):
        s2 = subst(st, {k: v for k, v in env.items()}) if not skip_targets else self._subst_values_only(st, env)
        muts = _mutated_bases(st) | self._call_mutated(st)
        # a local computed from an object BEFORE that object is mutated keeps its value: it can no longer be replaced by its
        # defining expression (which would now read the mutated object), so its binding is recorded as an effect of its own and
        # the name stays
        for k in [k for k, v in env.items() if k not in muts and any(isinstance(n, ast.Name) and n.id in muts for n in ast.walk(v))]:
            # the frozen value gets a name of its own (`k__L<line>`): `k` may be rebound later, or may be a parameter that the
            # frozen expression itself mentions (`data = f(data)`), and a reader must be able to tell the two apart
            fz = f"{k.split('__L')[0]}__L{getattr(st, 'lineno', 0)}"
            effects.append(ast.fix_missing_locations(ast.copy_location(
                ast.Assign(targets=[ast.Name(id=fz, ctx=ast.Store())], value=env[k]), st)))
            env[k] = ast.Name(id=fz, ctx=ast.Load())
        effects.append(s2)
        for b in muts:
            env.pop(b, None)

    @staticmethod
    def _subst_values_only(st, env):
        s2 = copy.deepcopy(st)
        if isinstance(s2, ast.Assign):
            s2.value = subst(s2.value, env)
            new_t = []
            for t in s2.targets:
                if isinstance(t, ast.Subscript):
                    t.slice = subst(t.slice, env)
                new_t.append(t)
            s2.targets = new_t
        return ast.fix_missing_locations(s2)


def outcomes(fn: ast.AST, *, max_paths: int = 600) -> List[Outcome]:
    """All ways ``fn`` can end, with values expressed over parameters / opaque names.  Raises Unmodelled."""
    return _Walker(fn, max_paths).run()


# ------------------------------------------------------------------------------------------------ truth reasoning
def atom_value(e: ast.expr, facts: Dict[str, bool]) -> Optional[bool]:
    """Truth value of ``e`` under ``facts`` (normalised atom text -> bool); None if undetermined."""
    if isinstance(e, ast.Constant):
        return bool(e.value)
    if isinstance(e, ast.UnaryOp) and isinstance(e.op, ast.Not):
        v = atom_value(e.operand, facts)
        return None if v is None else not v
    if isinstance(e, ast.BoolOp):
        vals = [atom_value(v, facts) for v in e.values]
        if isinstance(e.op, ast.And):
            if any(v is False for v in vals):
                return False
            return True if all(v is True for v in vals) else None
        if any(v is True for v in vals):
            return True
        return False if all(v is False for v in vals) else None
    t = norm(e)
    if t in facts:
        return facts[t]
    n = norm(as_test(negate(e)))
    if n in facts:
        return not facts[n]
    return None


class _Simplify(ast.NodeTransformer):
    def __init__(self, facts):
        self.facts = facts

    def visit_IfExp(self, n):
        self.generic_visit(n)
        v = atom_value(n.test, self.facts)
        if v is True:
            return n.body
        if v is False:
            return n.orelse
        return n

    def visit_BoolOp(self, n):
        self.generic_visit(n)
        vals = list(n.values)
        out = []
        for i, x in enumerate(vals):
            v = atom_value(x, self.facts)
            last = i == len(vals) - 1
            if isinstance(n.op, ast.Or):
                if v is True:
                    out.append(x)
                    break
                if v is False and not last:
                    continue
            else:
                if v is False:
                    out.append(x)
                    break
                if v is True and not last:
                    continue
            out.append(x)
        if len(out) == 1:
            return out[0]
        n.values = out
        return n


def simplify(e: ast.AST, facts: Dict[str, bool]) -> ast.AST:
    """Partial evaluation of ``x if c else y`` / ``a or b`` / ``a and b`` under known truth values."""
    return ast.fix_missing_locations(_Simplify(facts).visit(copy.deepcopy(e)))


def consistent(o: Outcome, facts: Dict[str, bool]) -> bool:
    for c, pol in o.conds:
        v = atom_value(c, facts)
        if v is None:
            v = atom_value(simplify(c, facts), facts)
        if v is not None and v != pol:
            return False
    return True


def select(outs: Sequence[Outcome], facts: Dict[str, bool], kinds: Sequence[str] = ("return", "raise", "yield", "yield_from", "fall")) -> List[Outcome]:
    return [o for o in outs if o.kind in kinds and consistent(o, facts)]


# ------------------------------------------------------------------------------------------------ patterns
class _PM:
    def __init__(self, binds):
        self.b = dict(binds or {})

    def match(self, p, n) -> bool:
        if isinstance(p, ast.Name):
            if p.id.startswith("ANY_"):
                return self._bind(p.id, n)
            if p.id.startswith("VAR_"):
                return isinstance(n, ast.Name) and self._bind(p.id, n)
            if p.id == "_":
                return True
            return isinstance(n, ast.Name) and n.id == p.id
        if isinstance(p, ast.Expr) and isinstance(n, ast.Expr):
            return self.match(p.value, n.value)
        if type(p) is not type(n):
            return False
        if isinstance(p, ast.Constant):
            return type(p.value) is type(n.value) and p.value == n.value
        if isinstance(p, ast.Call):
            return self._call(p, n)
        for f, pv in ast.iter_fields(p):
            if f in ("ctx", "lineno", "col_offset", "end_lineno", "end_col_offset", "type_comment", "annotation", "returns", "type_params", "kind"):
                continue
            nv = getattr(n, f, None)
            if isinstance(pv, list):
                if not isinstance(nv, list) or len(pv) != len(nv):
                    return False
                for a, b in zip(pv, nv):
                    if isinstance(a, ast.AST):
                        if not self.match(a, b):
                            return False
                    elif a != b:
                        return False
            elif isinstance(pv, ast.AST):
                if not isinstance(nv, ast.AST) or not self.match(pv, nv):
                    return False
            else:
                if f == "arg" and isinstance(pv, str) and pv.startswith("VAR_"):
                    if not self._bind(pv, ast.Name(id=nv, ctx=ast.Load())):
                        return False
                elif f == "id":
                    continue
                elif pv != nv:
                    return False
        return True

    def _call(self, p: ast.Call, n: ast.Call) -> bool:
        if not self.match(p.func, n.func):
            return False
        # calls of project functions with an unambiguous parameter list match whether an argument is written
        # positionally or by keyword
        name = n.func.id if isinstance(n.func, ast.Name) else (n.func.attr if isinstance(n.func, ast.Attribute) else None)
        sig = SIGNATURES.get(name) if name else None
        if sig and (len(p.args) != len(n.args) or {k.arg for k in p.keywords} != {k.arg for k in n.keywords}):
            def as_kw(c):
                if any(isinstance(a, ast.Starred) for a in c.args) or any(k.arg is None for k in c.keywords) or len(c.args) > len(sig):
                    return None
                d = {sig[i]: a for i, a in enumerate(c.args)}
                for k in c.keywords:
                    if k.arg in d:
                        return None
                    d[k.arg] = k.value
                return d
            dp, dn = as_kw(p), as_kw(n)
            if dp is not None and dn is not None:
                dfl = DEFAULTS.get(name, {})
                for k in set(dp) ^ set(dn):
                    if k in dfl:
                        (dp if k not in dp else dn)[k] = dfl[k]
                return set(dp) == set(dn) and all(self.match(dp[k], dn[k]) for k in dp)
        # a pattern argument list ending in `ANY_REST` style star is not supported; keywords match by name, any order
        if len(p.args) != len(n.args):
            return False
        for a, b in zip(p.args, n.args):
            if not self.match(a, b):
                return False
        pk = {k.arg: k.value for k in p.keywords}
        nk = {k.arg: k.value for k in n.keywords}
        if set(pk) != set(nk):
            return False
        return all(self.match(pk[k], nk[k]) for k in pk)

    def _bind(self, name, node) -> bool:
        t = norm(node)
        if name in self.b:
            return self.b[name] == t
        self.b[name] = t
        return True


_PAT_CACHE: Dict[str, ast.AST] = {}


def pm(pattern: str, node: Optional[ast.AST], binds: Optional[Dict[str, str]] = None) -> Optional[Dict[str, str]]:
    """Match ``node`` against the source ``pattern``.  Identifiers ``VAR_x`` match any name, ``ANY_x`` any expression
    (both consistently: a second occurrence must have the same normalised text), ``_`` anything.  Keyword arguments match
    in any order.  Returns the bindings (name -> normalised text) or None."""
    if node is None:
        return None
    p = _PAT_CACHE.get(pattern)
    if p is None:
        p = _PAT_CACHE[pattern] = ast.parse(pattern).body[0]
    if isinstance(p, ast.Expr) and not isinstance(node, ast.Expr):
        p = p.value
    m = _PM(binds)
    return m.b if m.match(p, node) else None


def pm_any(patterns: Sequence[str], node: Optional[ast.AST], binds=None) -> Optional[Dict[str, str]]:
    for p in patterns:
        r = pm(p, node, binds)
        if r is not None:
            return r
    return None


def find(pattern: str, root: ast.AST, binds=None) -> List[Tuple[ast.AST, Dict[str, str]]]:
    """All sub-nodes of ``root`` matching ``pattern``."""
    out = []
    for n in ast.walk(root):
        r = pm(pattern, n, binds)
        if r is not None:
            out.append((n, r))
    return out


def thaw(outs: Sequence[Outcome]) -> List[Outcome]:
    """Outcomes with the frozen locals (bindings kept as effects because an object they were computed from was mutated
    later) written out again in path conditions and values: the condition `flag` reads as the expression `flag` was bound to,
    evaluated where it was bound."""
    res = []
    for o in outs:
        frozen = {e.targets[0].id: e.value for e in o.effects
                  if isinstance(e, ast.Assign) and len(e.targets) == 1 and isinstance(e.targets[0], ast.Name)}
        if not frozen:
            res.append(o)
            continue
        conds = _norm_conds([(subst(c, frozen), pol) for c, pol in o.conds])
        val = subst(o.value, frozen) if o.value is not None else None
        res.append(Outcome(o.kind, val, conds, o.stmt, o.env, o.loops, o.effects))
    return res


def value_of(o: Outcome, name: str) -> Optional[ast.expr]:
    """The value local ``name`` holds at the end of the path: its substituted definition, or — when it had to be frozen
    because an object it was computed from was mutated afterwards — the value recorded with that binding."""
    v = o.env.get(name)
    frozen = {e.targets[0].id: e.value for e in o.effects if isinstance(e, ast.Assign) and len(e.targets) == 1 and isinstance(e.targets[0], ast.Name)}
    if v is not None:
        return subst(v, frozen) if frozen else v
    return frozen.get(name)


def eval_under(outs: Sequence[Outcome], facts: Dict[str, bool], kinds: Sequence[str] = ("return", "raise", "yield", "yield_from", "fall")):
    """The distinct (kind, value text, effect texts) of the outcomes consistent with ``facts``, each partially evaluated
    under them.  A function whose behaviour is determined by the facts gives exactly one entry."""
    seen, res = set(), []
    for o in select(outs, facts, kinds):
        v = simplify(o.value, facts) if o.value is not None else None
        effs = []
        for e in o.effects:
            if isinstance(e, (ast.For, ast.While)):
                effs.append(e)
            else:
                effs.append(simplify(e, facts))
        key = (o.kind, norm(v) if v is not None else None, tuple(norm(e) for e in effs))
        if key not in seen:
            seen.add(key)
            res.append((o.kind, v, effs))
    return res


def truth_cases(outs: Sequence[Outcome], atoms: Sequence[str], kinds: Sequence[str]):
    """For every truth assignment of ``atoms`` (normalised positive atom texts): the sorted list of distinct
    (kind, value text) of the outcomes consistent with it.  Returns {assignment tuple: [(kind, text), …]}."""
    import itertools
    res = {}
    for vals in itertools.product([False, True], repeat=len(atoms)):
        facts = dict(zip(atoms, vals))
        got = sorted({(k, norm(v) if v is not None else None) for k, v, _ in eval_under(outs, facts, kinds)})
        res[vals] = got
    return res


def loops_of(outs: Sequence[Outcome]):
    """The distinct loops (markers with _sym_head / _sym_env / _sym_orig) seen in the outcomes, outermost first."""
    seen, res = set(), []
    for o in outs:
        for l in o.loops:
            if id(l._sym_orig) not in seen:
                seen.add(id(l._sym_orig))
                res.append(l)
    return res


def iteration_effects(outs: Sequence[Outcome], loop, facts: Dict[str, bool]):
    """What one iteration of ``loop`` does under ``facts``: the distinct (way the iteration ends, [effects executed in it],
    env at its end), effects and env values partially evaluated under the facts."""
    inl = [o for o in outs if any(l._sym_orig is loop._sym_orig for l in o.loops)]
    pre = None
    res, seen = [], set()
    for o in select(inl, facts, kinds=("fall", "continue", "break", "return", "raise", "yield", "yield_from")):
        mk = [l for l in o.loops if l._sym_orig is loop._sym_orig][0]
        pre = getattr(mk, "_sym_pre", 0)
        own = [simplify(e, facts) if not isinstance(e, (ast.For, ast.While)) else e for e in o.effects[pre:]]
        key = (o.kind, tuple(norm(e) for e in own), norm(o.value) if o.value is not None else None)
        if key not in seen:
            seen.add(key)
            res.append((o.kind, own, {k: simplify(v, facts) for k, v in o.env.items()}, o))
    return res


def _in_loop_effect(e) -> bool:
    return False
