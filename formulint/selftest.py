"""formulint.selftest — the checker is tested both ways on every thorough run.

Each variant is an in-memory edit of one or more files of /repo's *current* working tree (an
overlay handed to the loader; nothing is written to disk, no scratch copy is needed).

* breaking variants: a realistic property-breaking edit; the named rule(s) must report it;
* equivalent variants: a behaviour-preserving refactor; no rule may report anything new.

A variant whose anchor text is no longer present (because /repo was edited) is skipped and
counted.  A self-validation failure means the *checker* is broken: it is reported as an
ANALYSIS-ERROR (exit 2), never as a VIOLATION of the property.
"""
from __future__ import annotations

import os
from typing import Any, Dict, List

from .core import AnalysisError, Project
from .report import load_known, match_known


def _fired(prop: str, repo: str, overlay) -> set:
    from .cli import run_property
    _, ctx = run_property(prop, "quick", repo, overlay, write_evidence=False, quiet=True)
    known = load_known()
    return {o.rule for o in ctx.failures if not match_known(prop, o, known)}, {o.key for o in ctx.failures}


def run_variant(v: Dict[str, Any], repo: str, base_keys: set) -> Dict[str, Any]:
    overlay = {}
    for ed in v["edits"]:
        rel, old, new = ed[0], ed[1], ed[2]
        nth = ed[3] if len(ed) > 3 else None  # (rel, old, new, k): replace the k-th of several occurrences
        src = overlay.get(rel)
        if src is None:
            with open(os.path.join(repo, rel), encoding="utf-8") as fh:
                src = fh.read()
        cnt = src.count(old)
        if nth is None:
            if cnt != 1:
                return {"id": v["id"], "status": "skipped", "why": f"anchor text occurs {cnt}x in {rel}"}
            overlay[rel] = src.replace(old, new)
        else:
            if cnt <= nth:
                return {"id": v["id"], "status": "skipped", "why": f"anchor text occurs {cnt}x in {rel}, need #{nth}"}
            pos = -1
            for _ in range(nth + 1):
                pos = src.index(old, pos + 1)
            overlay[rel] = src[:pos] + new + src[pos + len(old):]
    try:
        rules, keys = _fired(v["prop"], repo, overlay)
    except AnalysisError as e:
        # An analysis error on a variant counts as "noticed" for breaking variants only if declared so
        if v.get("expect") and v.get("analysis_error_ok"):
            return {"id": v["id"], "status": "ok", "fired": ["ANALYSIS-ERROR"]}
        return {"id": v["id"], "status": "failed", "why": f"analysis error: {e}"}
    except Exception as e:  # the checker itself crashed on this variant
        import traceback
        return {"id": v["id"], "status": "failed", "why": "checker crashed: " + traceback.format_exc().splitlines()[-1] + " @ " + traceback.format_exc().splitlines()[-3].strip()}
    new_keys = keys - base_keys
    expect = set(v.get("expect", []))
    if expect:
        new_rules = {k.split("|")[0] for k in new_keys}
        if not expect <= new_rules:
            return {"id": v["id"], "status": "failed", "why": f"expected {sorted(expect)} to fire, new reports: {sorted(new_rules)}"}
        return {"id": v["id"], "status": "ok", "fired": sorted(new_rules)}
    if new_keys:
        return {"id": v["id"], "status": "failed", "why": f"equivalent edit raised: {sorted(new_keys)}"}
    return {"id": v["id"], "status": "ok", "fired": []}


def run_for(prop: str, repo: str, *, raise_on_failure: bool = True) -> Dict[str, Any]:
    from .selftest_variants import VARIANTS
    vs = [v for v in VARIANTS if v["prop"] == prop]
    _, base_keys = _fired(prop, repo, None)
    jobs = int(os.environ.get("FORMULINT_JOBS", "0") or 0) or min(16, os.cpu_count() or 1)
    if jobs > 1 and len(vs) > 3:
        import multiprocessing
        with multiprocessing.get_context("fork").Pool(jobs) as pool:
            res = pool.starmap(run_variant, [(v, repo, base_keys) for v in vs])
    else:
        res = [run_variant(v, repo, base_keys) for v in vs]
    failed = [r for r in res if r["status"] == "failed"]
    out = {
        "variants": len(vs),
        "breaking": sum(1 for v in vs if v.get("expect")),
        "equivalent": sum(1 for v in vs if not v.get("expect")),
        "ok": sum(1 for r in res if r["status"] == "ok"),
        "skipped": [r for r in res if r["status"] == "skipped"],
        "failed": failed,
    }
    if failed and raise_on_failure:
        raise AnalysisError(f"self-validation of the {prop} rules failed: {failed}")
    return out


if __name__ == "__main__":  # python -m formulint.selftest [PROP ...]
    import sys
    from .rules import CLAIMED
    props = sys.argv[1:] or CLAIMED
    bad = 0
    for p in props:
        r = run_for(p, os.environ.get("FORMULINT_REPO", "/repo"), raise_on_failure=False)
        print(p, {k: (v if not isinstance(v, list) else len(v)) for k, v in r.items()})
        for f in r["failed"]:
            print("   FAILED", f)
            bad += 1
        for s in r["skipped"]:
            print("   skipped", s)
    sys.exit(2 if bad else 0)
