"""formulint — repository-specific static analysis for matthewwardrop/formulaic (see /verif/DESIGN.md)."""
