"""formulint.util — small dataflow helpers shared by the rules."""
from __future__ import annotations

import ast
import copy
from typing import Callable, Dict, Iterable, Iterator, List, Optional, Sequence, Set, Tuple

from .core import AnalysisError, FunctionInfo, Project, dotted, norm, walk_no_nested


def header_exprs(st: ast.stmt) -> List[ast.AST]:
    """The expressions evaluated when control reaches the CFG node of ``st``."""
    if isinstance(st, (ast.If, ast.While)):
        return [st.test]
    if isinstance(st, (ast.For, ast.AsyncFor)):
        return [st.iter, st.target]
    if isinstance(st, (ast.With, ast.AsyncWith)):
        return [i.context_expr for i in st.items]
    if isinstance(st, ast.Try) or st.__class__.__name__ == "TryStar":
        return []
    if isinstance(st, (ast.FunctionDef, ast.AsyncFunctionDef)):
        return list(st.decorator_list) + [d for d in st.args.defaults] + [d for d in st.args.kw_defaults if d]
    if isinstance(st, ast.ClassDef):
        return list(st.decorator_list) + list(st.bases)
    return [st]


def header_walk(st: ast.stmt) -> Iterator[ast.AST]:
    for e in header_exprs(st):
        yield from ast.walk(e)


def header_calls(st: ast.stmt) -> Iterator[ast.Call]:
    for n in header_walk(st):
        if isinstance(n, ast.Call):
            yield n


def assigned_names(target: ast.AST) -> List[str]:
    out = []
    for n in ast.walk(target):
        if isinstance(n, ast.Name) and isinstance(n.ctx, (ast.Store, ast.Del)):
            out.append(n.id)
    return out


def assignments(fn: ast.AST, *, nested: bool = False) -> List[Tuple[str, ast.AST, ast.stmt]]:
    """(name, value-expr, stmt) for every simple binding ``name = value`` / ``name: T = value``
    / ``name op= value`` / for-target / with-as in the function body (not nested defs)."""
    out = []
    it = ast.walk(fn) if nested else walk_no_nested(fn)
    for n in it:
        if isinstance(n, ast.Assign):
            for t in n.targets:
                if isinstance(t, ast.Name):
                    out.append((t.id, n.value, n))
                elif isinstance(t, (ast.Tuple, ast.List)):
                    for nm in assigned_names(t):
                        out.append((nm, n.value, n))
        elif isinstance(n, ast.AnnAssign) and isinstance(n.target, ast.Name) and n.value is not None:
            out.append((n.target.id, n.value, n))
        elif isinstance(n, ast.AugAssign) and isinstance(n.target, ast.Name):
            out.append((n.target.id, n.value, n))
        elif isinstance(n, (ast.For, ast.AsyncFor)):
            for nm in assigned_names(n.target):
                out.append((nm, n.iter, n))
        elif isinstance(n, ast.comprehension):
            for nm in assigned_names(n.target):
                out.append((nm, n.iter, n))
        elif isinstance(n, (ast.With, ast.AsyncWith)):
            for i in n.items:
                if i.optional_vars is not None:
                    for nm in assigned_names(i.optional_vars):
                        out.append((nm, i.context_expr, n))
        elif isinstance(n, ast.NamedExpr) and isinstance(n.target, ast.Name):
            out.append((n.target.id, n.value, n))
    return out


def derived_names(fn: ast.AST, seeds: Iterable[str]) -> Set[str]:
    """Flow-insensitive closure: names whose assigned value mentions a derived name."""
    d = set(seeds)
    asg = assignments(fn, nested=True)
    changed = True
    while changed:
        changed = False
        for name, value, _ in asg:
            if name not in d and any(isinstance(x, ast.Name) and x.id in d for x in ast.walk(value)):
                d.add(name)
                changed = True
    return d


def mentions(expr: ast.AST, names: Iterable[str]) -> bool:
    s = set(names)
    return any(isinstance(x, ast.Name) and x.id in s for x in ast.walk(expr))


def single_assignment_env(fn: ast.AST) -> Dict[str, ast.AST]:
    """Locals bound exactly once by a plain ``name = expr`` (not params, not loop targets)."""
    counts: Dict[str, int] = {}
    vals: Dict[str, ast.AST] = {}
    params = set()
    if hasattr(fn, "args"):
        a = fn.args
        for x in list(a.posonlyargs) + list(a.args) + list(a.kwonlyargs):
            params.add(x.arg)
        if a.vararg:
            params.add(a.vararg.arg)
        if a.kwarg:
            params.add(a.kwarg.arg)
    for name, value, st in assignments(fn):
        counts[name] = counts.get(name, 0) + 1
        if isinstance(st, (ast.Assign, ast.AnnAssign)) and not (
                isinstance(st, ast.Assign) and any(not isinstance(t, ast.Name) for t in st.targets)):
            vals[name] = value
        else:
            counts[name] += 1  # disqualify tuple targets / loop targets / augmented
    mutated = set()
    for n in walk_no_nested(fn):
        if isinstance(n, (ast.Assign, ast.AugAssign, ast.Delete)):
            tgts = n.targets if isinstance(n, (ast.Assign, ast.Delete)) else [n.target]
            for t in tgts:
                if isinstance(t, (ast.Subscript, ast.Attribute)):
                    b = t
                    while isinstance(b, (ast.Subscript, ast.Attribute)):
                        b = b.value
                    if isinstance(b, ast.Name):
                        mutated.add(b.id)
    return {n: v for n, v in vals.items() if counts[n] == 1 and n not in params and n not in mutated}


class _Subst(ast.NodeTransformer):
    def __init__(self, env, depth):
        self.env, self.depth = env, depth

    def visit_Name(self, node):
        if isinstance(node.ctx, ast.Load) and node.id in self.env and self.depth > 0:
            return _Subst(self.env, self.depth - 1).visit(copy.deepcopy(self.env[node.id]))
        return node


def inline_locals(expr: ast.AST, fn: ast.AST, depth: int = 6) -> ast.AST:
    """``expr`` with single-assignment locals of ``fn`` substituted by their defining expressions."""
    env = single_assignment_env(fn)
    return ast.fix_missing_locations(_Subst(env, depth).visit(copy.deepcopy(expr)))


def strip_casts(e: ast.AST) -> ast.AST:
    """Peel ``cast(T, x)`` / ``typing.cast`` wrappers."""
    while isinstance(e, ast.Call) and dotted(e.func) in ("cast", "typing.cast") and len(e.args) == 2:
        e = e.args[1]
    return e


def returns_of(fn: ast.AST) -> List[ast.Return]:
    return [n for n in walk_no_nested(fn) if isinstance(n, ast.Return)]


def lambdas_in(node: ast.AST) -> List[ast.Lambda]:
    return [n for n in ast.walk(node) if isinstance(n, ast.Lambda)]


def stmt_text(st: ast.AST, limit: int = 140) -> str:
    t = norm(st)
    return t if len(t) <= limit else t[: limit - 3] + "..."


def attr_call(call: ast.Call) -> Optional[str]:
    return call.func.attr if isinstance(call.func, ast.Attribute) else None


def func_name(call: ast.Call) -> Optional[str]:
    if isinstance(call.func, ast.Attribute):
        return call.func.attr
    if isinstance(call.func, ast.Name):
        return call.func.id
    return None


def count_negations(e: ast.AST) -> Tuple[ast.AST, int]:
    """Peel boolean negations: ``~x``, ``not x``, ``numpy.logical_not(x)``, ``x == False``."""
    n = 0
    while True:
        if isinstance(e, ast.UnaryOp) and isinstance(e.op, (ast.Invert, ast.Not)):
            e, n = e.operand, n + 1
        elif isinstance(e, ast.Call) and (dotted(e.func) or "").endswith("logical_not") and e.args:
            e, n = e.args[0], n + 1
        elif (isinstance(e, ast.Compare) and len(e.ops) == 1 and isinstance(e.ops[0], (ast.Eq, ast.Is))
              and isinstance(e.comparators[0], ast.Constant) and e.comparators[0].value is False):
            e, n = e.left, n + 1
        else:
            return e, n


class _Canon(ast.NodeTransformer):
    def __init__(self, names):
        self.map = {}
        self.names = names

    def _n(self, x):
        if x in self.names:
            if x not in self.map:
                self.map[x] = f"v{len(self.map)}"
            return self.map[x]
        return x

    def visit_Name(self, node):
        return ast.copy_location(ast.Name(id=self._n(node.id), ctx=node.ctx), node)

    def visit_arg(self, node):
        return ast.copy_location(ast.arg(arg=self._n(node.arg), annotation=None), node)


def canon(fn: ast.AST) -> str:
    """Normalised text of a function / lambda with parameters and local variables alpha-renamed
    (v0, v1, … in order of first appearance), annotations, docstring and decorators dropped.  Two functions
    that differ only by local naming have the same canon()."""
    fn = copy.deepcopy(fn)
    local = set()
    if hasattr(fn, "args"):
        a = fn.args
        for x in list(a.posonlyargs) + list(a.args) + list(a.kwonlyargs):
            local.add(x.arg)
        if a.vararg:
            local.add(a.vararg.arg)
        if a.kwarg:
            local.add(a.kwarg.arg)
    for n in ast.walk(fn):
        if isinstance(n, ast.Name) and isinstance(n.ctx, ast.Store):
            local.add(n.id)
        if isinstance(n, ast.arg) and n is not fn:
            local.add(n.arg)  # parameters of nested functions / lambdas
    if isinstance(fn, (ast.FunctionDef, ast.AsyncFunctionDef)):
        fn.decorator_list = []
        fn.returns = None
        fn.name = "f"
        if fn.body and isinstance(fn.body[0], ast.Expr) and isinstance(fn.body[0].value, ast.Constant) and isinstance(fn.body[0].value.value, str):
            fn.body = fn.body[1:] or [ast.Pass()]
        for n in ast.walk(fn):
            if isinstance(n, ast.AnnAssign) and n.value is not None and isinstance(n.target, ast.Name):
                n.annotation = ast.Name(id="T", ctx=ast.Load())
    out = _Canon(local).visit(fn)
    return norm(ast.fix_missing_locations(out))


SCOPES = (ast.FunctionDef, ast.AsyncFunctionDef, ast.Lambda, ast.ListComp, ast.SetComp, ast.DictComp, ast.GeneratorExp)


def _scope_bindings(scope: ast.AST) -> List[str]:
    """Names bound directly in ``scope`` (in order of appearance), not those of nested scopes."""
    out: List[str] = []

    def add(n):
        if n not in out:
            out.append(n)

    if isinstance(scope, (ast.FunctionDef, ast.AsyncFunctionDef, ast.Lambda)):
        a = scope.args
        for x in list(a.posonlyargs) + list(a.args) + ([a.vararg] if a.vararg else []) + list(a.kwonlyargs) + ([a.kwarg] if a.kwarg else []):
            add(x.arg)
        roots = scope.body if isinstance(scope.body, list) else [scope.body]
    else:
        roots = []
        for g in scope.generators:
            for n in ast.walk(g.target):
                if isinstance(n, ast.Name):
                    add(n.id)

    def walk(n):
        if isinstance(n, (ast.FunctionDef, ast.AsyncFunctionDef)):
            add(n.name)
            return
        if isinstance(n, SCOPES):
            return
        if isinstance(n, ast.Name) and isinstance(n.ctx, (ast.Store, ast.Del)):
            add(n.id)
        if isinstance(n, ast.ExceptHandler) and n.name:
            add(n.name)
        for c in ast.iter_child_nodes(n):
            walk(c)

    for r in roots:
        walk(r)
    free = set()
    for r in roots:
        for n in ast.walk(r):
            if isinstance(n, (ast.Global, ast.Nonlocal)):
                free.update(n.names)
    return [x for x in out if x not in free]


def _loop_local_names(scope: ast.AST) -> set:
    """Names of a function scope that only ever live inside `for` loops that bind them as their target: each such loop
    is then its own little scope (two loops may share a spelling, or not — the program is the same)."""
    if not isinstance(scope, (ast.FunctionDef, ast.AsyncFunctionDef)):
        return set()
    stores, loads, for_stores = {}, {}, {}

    def walk(n, loops):
        if isinstance(n, SCOPES) and n is not scope:
            # nested scopes: a load there of an outer name counts as a load outside any loop (be conservative)
            # (names the nested scope binds itself — comprehension targets, parameters — are its own variables)
            own = {x.id for x in ast.walk(n) if isinstance(x, ast.Name) and isinstance(x.ctx, (ast.Store, ast.Del))} | \
                  {x.arg for x in ast.walk(n) if isinstance(x, ast.arg)}
            for x in ast.walk(n):
                if isinstance(x, ast.Name) and isinstance(x.ctx, ast.Load) and x.id not in own:
                    loads.setdefault(x.id, []).append(())
            if isinstance(n, (ast.ListComp, ast.SetComp, ast.DictComp, ast.GeneratorExp)) and n.generators:
                walk(n.generators[0].iter, loops)   # the first iterable is evaluated in the enclosing scope, where it stands
            return
        if isinstance(n, (ast.For, ast.AsyncFor)):
            tn = {x.id for x in ast.walk(n.target) if isinstance(x, ast.Name)}
            for t in tn:
                for_stores[t] = for_stores.get(t, 0) + 1
                stores[t] = stores.get(t, 0) + 1
            walk(n.iter, loops)
            for st in n.body + n.orelse:
                walk(st, loops + [tn])
            return
        if isinstance(n, ast.Name):
            if isinstance(n.ctx, ast.Load):
                loads.setdefault(n.id, []).append(tuple(frozenset(l) for l in loops))
            else:
                stores[n.id] = stores.get(n.id, 0) + 1
            return
        for c in ast.iter_child_nodes(n):
            walk(c, loops)

    for st in scope.body:
        walk(st, [])
    params = {x.arg for x in ast.walk(scope.args) if isinstance(x, ast.arg)}
    out = set()
    for name, k in for_stores.items():
        if name in params or stores.get(name, 0) != k:
            continue
        if all(any(name in l for l in ls) for ls in loads.get(name, [])):
            out.add(name)
    return out


class _ScopedAlpha:
    """Scope-aware alpha-renaming.  ``rename(scope_index, position, old_name) -> new_name``."""

    def __init__(self, root: ast.AST, keep_params_of_root: bool = True):
        self.root = root
        self.keep = keep_params_of_root
        self.table: List[Tuple[int, str]] = []  # canonical id -> (scope serial, name)

    def run(self, namer) -> ast.AST:
        self.namer = namer
        self.serial = 0
        self._scope(self.root, [])
        return self.root

    def _loop_scope(self, loop, names, stack):
        frame = {}
        for n in sorted(names, key=lambda x: [y.id for y in ast.walk(loop.target) if isinstance(y, ast.Name)].index(x)):
            cid = len(self.table)
            self.table.append((self.serial, n))
            frame[n] = self.namer(cid, n)
        self.serial += 1
        self._visit(loop.iter, stack)
        inner = stack + [frame]
        self._visit(loop.target, inner)
        for st in loop.body + loop.orelse:
            self._visit(st, inner)

    def _scope(self, scope, stack):
        names = _scope_bindings(scope)
        ll = _loop_local_names(scope)
        self.loop_local = getattr(self, "loop_local", [])
        self.loop_local.append(ll)
        names = [n for n in names if n not in ll]
        try:
            self._scope_inner(scope, stack, names)
        finally:
            self.loop_local.pop()

    def _scope_inner(self, scope, stack, names):
        if scope is self.root and self.keep and hasattr(scope, "args"):
            a = scope.args
            params = {x.arg for x in list(a.posonlyargs) + list(a.args) + list(a.kwonlyargs) + ([a.vararg] if a.vararg else []) + ([a.kwarg] if a.kwarg else [])}
            names = [n for n in names if n not in params]
        frame = {}
        for n in names:
            cid = len(self.table)
            self.table.append((self.serial, n))
            frame[n] = self.namer(cid, n)
        self.serial += 1
        stack = stack + [frame]
        if isinstance(scope, (ast.FunctionDef, ast.AsyncFunctionDef, ast.Lambda)):
            a = scope.args
            for x in list(a.posonlyargs) + list(a.args) + list(a.kwonlyargs) + ([a.vararg] if a.vararg else []) + ([a.kwarg] if a.kwarg else []):
                if x.arg in frame:
                    x.arg = frame[x.arg]
                x.annotation = None
            for d in list(a.defaults) + [d for d in a.kw_defaults if d is not None]:
                self._visit(d, stack[:-1])
            body = scope.body if isinstance(scope.body, list) else [scope.body]
            for st in body:
                self._visit(st, stack)
        else:
            for f, v in ast.iter_fields(scope):
                if isinstance(v, list):
                    for x in v:
                        if isinstance(x, ast.AST):
                            self._visit(x, stack)
                elif isinstance(v, ast.AST):
                    self._visit(v, stack)

    def _visit(self, n, stack):
        if isinstance(n, (ast.FunctionDef, ast.AsyncFunctionDef)):
            for fr in reversed(stack):
                if n.name in fr:
                    n.name = fr[n.name]
                    break
            n.returns = None
            for d in n.decorator_list:
                self._visit(d, stack)
            self._scope(n, stack)
            return
        if isinstance(n, SCOPES):
            self._scope(n, stack)
            return
        if isinstance(n, (ast.For, ast.AsyncFor)) and getattr(self, "loop_local", None):
            tn = {x.id for x in ast.walk(n.target) if isinstance(x, ast.Name)} & self.loop_local[-1]
            if tn:
                self._loop_scope(n, tn, stack)
                return
        if isinstance(n, ast.Name):
            for fr in reversed(stack):
                if n.id in fr:
                    n.id = fr[n.id]
                    break
            return
        if isinstance(n, ast.ExceptHandler) and n.name:
            for fr in reversed(stack):
                if n.name in fr:
                    n.name = fr[n.name]
                    break
        if isinstance(n, ast.AnnAssign):
            n.annotation = ast.Name(id="T", ctx=ast.Load())
        for c in ast.iter_child_nodes(n):
            self._visit(c, stack)


def canon_map(fn: ast.AST):
    """(canon text, local names by canonical id).  Scope-aware: a name bound in two scopes is two variables.
    The function's own parameters are part of its interface and keep their names."""
    fn2 = copy.deepcopy(fn)
    if isinstance(fn2, (ast.FunctionDef, ast.AsyncFunctionDef)):
        fn2.decorator_list = []
        fn2.returns = None
        if fn2.body and isinstance(fn2.body[0], ast.Expr) and isinstance(fn2.body[0].value, ast.Constant) and isinstance(fn2.body[0].value.value, str):
            fn2.body = fn2.body[1:] or [ast.Pass()]
    sa = _ScopedAlpha(fn2)
    sa.run(lambda cid, name: f"v{cid}")
    return norm(ast.fix_missing_locations(fn2)), [n for _, n in sa.table]


def canon_ast(fn: ast.AST) -> ast.AST:
    """The alpha-canonical copy of a function (see canon_map), as a tree."""
    fn2 = copy.deepcopy(fn)
    if isinstance(fn2, (ast.FunctionDef, ast.AsyncFunctionDef)):
        fn2.decorator_list = []
        fn2.returns = None
        if fn2.body and isinstance(fn2.body[0], ast.Expr) and isinstance(fn2.body[0].value, ast.Constant) and isinstance(fn2.body[0].value.value, str):
            fn2.body = fn2.body[1:] or [ast.Pass()]
    _ScopedAlpha(fn2).run(lambda cid, name: f"v{cid}")
    return ast.fix_missing_locations(fn2)


def alpha_rename(fn: ast.AST, new_names: List[str]) -> None:
    """Rename, in place, the local with canonical id k to new_names[k] (scope-aware)."""
    _ScopedAlpha(fn).run(lambda cid, name: new_names[cid] if cid < len(new_names) else name)
    ast.fix_missing_locations(fn)


def truth_table(expr: ast.AST, atom_of, n_atoms: int):
    """Evaluate a boolean expression (and/or/not over atoms) on every assignment of ``n_atoms`` atoms.
    ``atom_of(node)`` returns (index, polarity) for an atomic sub-expression or None.  Returns the tuple of results
    (in itertools.product([False, True], repeat=n) order) or the text of the first unmodelled atom."""
    import itertools

    class Unmodelled(Exception):
        pass

    def ev(e, env):
        if isinstance(e, ast.BoolOp):
            vals = [ev(v, env) for v in e.values]
            return all(vals) if isinstance(e.op, ast.And) else any(vals)
        if isinstance(e, ast.UnaryOp) and isinstance(e.op, ast.Not):
            return not ev(e.operand, env)
        if isinstance(e, ast.IfExp):
            return ev(e.body, env) if ev(e.test, env) else ev(e.orelse, env)
        a = atom_of(e)
        if a is None:
            if isinstance(e, ast.Constant) and isinstance(e.value, bool):
                return e.value
            raise Unmodelled(norm(e))
        i, pol = a
        return env[i] if pol else not env[i]

    out = []
    try:
        for env in itertools.product([False, True], repeat=n_atoms):
            out.append(ev(expr, env))
    except Unmodelled as u:
        return str(u)
    return tuple(out)


def predicate_table(fn: ast.AST, atom_of, n_atoms: int):
    """truth_table of the boolean a function returns, whichever way it is spelled: one returned expression, or several
    guarded returns (the disjunction over the return paths of path condition and returned value)."""
    from . import sym
    outs = [o for o in sym.outcomes(fn) if o.kind in ("return", "fall", "raise")]
    if any(o.kind != "return" or o.value is None for o in outs) or not outs:
        return "not every path returns a value"
    disj = []
    for o in outs:
        conj = [c if pol else ast.UnaryOp(op=ast.Not(), operand=c) for c, pol in o.conds] + [o.value]
        disj.append(conj[0] if len(conj) == 1 else ast.BoolOp(op=ast.And(), values=conj))
    return truth_table(disj[0] if len(disj) == 1 else ast.BoolOp(op=ast.Or(), values=disj), atom_of, n_atoms)


def universal_form(e: ast.expr):
    """A quantified boolean `all(E for x in X if F)` / `not any(E for x in X if F)` (list or generator argument) in the one
    form ∀x∈X: C — returns (target name, iterable text, C) with filters folded into C, or None."""
    neg = False
    while isinstance(e, ast.UnaryOp) and isinstance(e.op, ast.Not):
        neg, e = not neg, e.operand
    if not (isinstance(e, ast.Call) and isinstance(e.func, ast.Name) and e.func.id in ("all", "any") and len(e.args) == 1 and not e.keywords
            and isinstance(e.args[0], (ast.GeneratorExp, ast.ListComp)) and len(e.args[0].generators) == 1):
        return None
    g = e.args[0].generators[0]
    if not isinstance(g.target, ast.Name) or (e.func.id == "any") != neg:
        return None  # `any(...)` / `not all(...)` are existential
    filt = list(g.ifs)
    body = e.args[0].elt
    if e.func.id == "all":      # ∀ x: F → E
        c = ast.BoolOp(op=ast.Or(), values=[ast.UnaryOp(op=ast.Not(), operand=x) for x in filt] + [body]) if filt else body
    else:                       # ¬∃ x: F ∧ E
        c = ast.UnaryOp(op=ast.Not(), operand=ast.BoolOp(op=ast.And(), values=filt + [body]) if filt else body)
    return g.target.id, norm(g.iter), c


def atom_mapper(table: Dict[str, int]):
    """``atom_of`` for truth_table: an atom is recognised by its text or by the text of its negation
    (`x is None` is atom `x is not None` with polarity False)."""
    from .sym import negate

    def f(e):
        t = norm(e)
        if t in table:
            return (table[t], True)
        try:
            nt = norm(negate(e))
        except Exception:
            return None
        if nt in table:
            return (table[nt], False)
        return None
    return f


def reach_condition(P, stmt: ast.stmt, mention: Optional[str] = None, keep=None, through_loops: bool = False) -> Optional[ast.expr]:
    """The condition under which ``stmt`` is reached within one iteration of its nearest enclosing loop (or within its
    function): the tests of the enclosing `if` statements together with the negations of the terminating guards
    (`if C: continue / return / raise / break`, no else) that precede it in the enclosing blocks.  Either spelling —
    nested `if` or early exit — gives an equivalent formula.  With ``mention``, only conjuncts naming that variable are kept.
    Returns None when there is no such condition.  ``through_loops`` continues through enclosing loops up to the function
    (for conditions that do not change between iterations, e.g. after loop unswitching)."""
    conj: List[ast.expr] = []
    child, cur = stmt, P.parent(stmt)
    while cur is not None:
        for field in ("body", "orelse", "finalbody"):
            blk = getattr(cur, field, None)
            if isinstance(blk, list) and any(child is s for s in blk):
                for s in blk:
                    if s is child:
                        break
                    if isinstance(s, ast.If) and not s.orelse and s.body and isinstance(s.body[-1], (ast.Continue, ast.Return, ast.Raise, ast.Break)):
                        conj.append(ast.UnaryOp(op=ast.Not(), operand=s.test))
                if isinstance(cur, ast.If):
                    conj.append(cur.test if field == "body" else ast.UnaryOp(op=ast.Not(), operand=cur.test))
        if isinstance(cur, (ast.FunctionDef, ast.AsyncFunctionDef, ast.Lambda)) or (not through_loops and isinstance(cur, (ast.For, ast.AsyncFor, ast.While))):
            break
        child, cur = cur, P.parent(cur)
    if mention is not None:
        conj = [c for c in conj if any(isinstance(n, ast.Name) and n.id == mention for n in ast.walk(c))]
    if keep is not None:
        conj = [c for c in conj if keep(c)]
    if not conj:
        return None
    return conj[0] if len(conj) == 1 else ast.BoolOp(op=ast.And(), values=conj)


def guards_of(P, node: ast.AST) -> List[Tuple[str, bool]]:
    """The branch conditions (normalised text, polarity) under which ``node`` is evaluated inside its function:
    enclosing `if` statements and conditional expressions (either spelling gives the same list)."""
    out: List[Tuple[str, bool]] = []
    child, cur = node, P.parent(node)
    while cur is not None and not isinstance(cur, (ast.FunctionDef, ast.AsyncFunctionDef, ast.Lambda)):
        if isinstance(cur, ast.If):
            if any(child is s for s in cur.body):
                out.append((cur.test, True))
            elif any(child is s for s in cur.orelse):
                out.append((cur.test, False))
        elif isinstance(cur, ast.IfExp):
            if child is cur.body:
                out.append((cur.test, True))
            elif child is cur.orelse:
                out.append((cur.test, False))
        child, cur = cur, P.parent(cur)
    from .sym import _norm_conds
    return [(norm(c), pol) for c, pol in _norm_conds(out)]


def doc_order(root: ast.AST) -> Dict[int, int]:
    """id(node) -> position in a depth-first, source-order walk of ``root`` (line numbers are not reliable in a normalised
    tree, where inlined statements carry the line of the call they replace)."""
    out: Dict[int, int] = {}

    def go(n):
        out[id(n)] = len(out)
        for c in ast.iter_child_nodes(n):
            go(c)
    go(root)
    return out
