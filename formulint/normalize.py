"""formulint.normalize — a second, *normalised view* of the program.

Every transformation here is semantics-preserving (under the stated side conditions), so an obligation that holds on
the normalised view holds for the program as written.  The rules are evaluated on both views and an obligation is
reported only if no view discharges it (see cli.run_property): behaviour-preserving refactorings of the kinds below
map to the same normal form as the code they were derived from and therefore do not raise alarms.

  N1  negation normal form           not (a == b) -> a != b ; not (A and B) -> not A or not B ; not not x (tests) -> x
  N2  guard / branch canonical form  `if c: A(terminates) else: R` == `if c: A ; R` ; shorter arm first with the test
                                     negated when the arms are swapped; implicit `continue` / `return` made explicit
  N3  conditional expressions        `if c: x = A else: x = B` -> `x = A if c else B` ; `if c: x = A` -> `x = A if c else x`
                                     `if c: return A ; return B` -> `return A if c else B`; canonical polarity of IfExp
  N4  accumulate loops               `acc = [] ; for …: [if …:] acc.append(e)` -> `acc = [e for … if …]` (dict / set alike)
                                     f([listcomp]) -> f(genexp) for consuming builtins; list(gen) -> [listcomp]
  N5  temporaries                    `t = E ; S(t)` (t bound once, used once, in the next statement, nothing that can
                                     interfere evaluated before the use) -> `S(E)`
  N6  private helpers                a private, non-recursive, uniquely named helper whose name no rule refers to is
                                     inlined at its call sites (expression-bodied anywhere; statement-bodied where the
                                     call is the whole right-hand side / statement)
  N7  single-use inner functions     `def f(x): return E` referenced once as an argument -> `lambda x: E`
  N8  argument passing               positional arguments (beyond the first) of calls to project functions whose
                                     parameter list is unambiguous are written as keywords
  N9  annotated assignment           `x: T = v` inside functions -> `x = v`
  N10–N14                            (documented at their definitions: keyword defaults, alias / pure-read propagation, tuple
                                     assignment split, span()/dict()/tuple-index spellings, copy coalescing)
  N16 operator callables             `methodcaller("m", *a, k=v)` -> `lambda o: o.m(*a, k=v)`, `attrgetter("a.b")` -> `lambda o: o.a.b`,
                                     `itemgetter(k)` -> `lambda o: o[k]` (arguments plain names / constants only)
  N15 emptiness tests                `len(v) == 0` -> `not v`, `len(v) > 0 | != 0 | >= 1` -> `v` in test positions, only for
                                     a local whose every binding is a builtin collection (display, comprehension,
                                     set()/list()/dict()/tuple()/frozenset()/sorted() call), for which the two are equal
"""
from __future__ import annotations

import ast
import copy
import os
import re
from typing import Dict, List, Optional, Set

from .core import norm

TERMINAL = (ast.Return, ast.Raise, ast.Continue, ast.Break)
NEG_OPS = {ast.Eq: ast.NotEq, ast.NotEq: ast.Eq, ast.Is: ast.IsNot, ast.IsNot: ast.Is, ast.In: ast.NotIn, ast.NotIn: ast.In}
CONSUMERS = {"tuple", "list", "set", "frozenset", "sorted", "sum", "any", "all", "max", "min", "OrderedSet"}
ARG_STOP = {
    "get", "update", "items", "keys", "values", "append", "add", "pop", "copy", "index", "count", "join", "split", "replace",
    "format", "sort", "extend", "insert", "remove", "clear", "setdefault", "match", "search", "union", "difference",
    "intersection", "startswith", "endswith", "strip", "encode", "decode", "read", "write", "close", "apply", "map", "filter",
    "reduce", "cast", "isinstance", "len", "print", "super", "type", "str", "int", "float", "bool", "dict", "list", "set", "tuple",
    "sum", "sorted", "enumerate", "zip", "range", "min", "max", "any", "all", "getattr", "setattr", "hasattr", "iter", "next",
    "warn", "transform", "fit", "astype", "reshape", "where", "fill", "dot", "mean", "std", "sqrt", "array", "asarray", "drop",
    "rename", "select", "concat", "eye", "zeros", "ones", "full", "empty", "pad", "clip", "isnan", "fillna", "unique", "tolist",
}


def _loc(new: ast.AST, old: ast.AST) -> ast.AST:
    return ast.copy_location(new, old)


def _docstring_split(body: List[ast.stmt]):
    if body and isinstance(body[0], ast.Expr) and isinstance(body[0].value, ast.Constant) and isinstance(body[0].value.value, str):
        return body[:1], body[1:]
    return [], body


# ------------------------------------------------------------------------------------------------ N1 negation
def negate(e: ast.expr) -> ast.expr:
    """An expression with the opposite truth value (boolean-valued)."""
    if isinstance(e, ast.UnaryOp) and isinstance(e.op, ast.Not):
        return e.operand
    if isinstance(e, ast.Compare) and len(e.ops) == 1 and type(e.ops[0]) in NEG_OPS:
        return _loc(ast.Compare(left=e.left, ops=[NEG_OPS[type(e.ops[0])]()], comparators=e.comparators), e)
    if isinstance(e, ast.BoolOp):
        op = ast.Or() if isinstance(e.op, ast.And) else ast.And()
        return _loc(ast.BoolOp(op=op, values=[negate(v) for v in e.values]), e)
    if isinstance(e, ast.Constant) and isinstance(e.value, bool):
        return _loc(ast.Constant(value=not e.value), e)
    return _loc(ast.UnaryOp(op=ast.Not(), operand=e), e)


def as_test(e: ast.expr) -> ast.expr:
    """Simplify an expression used only for its truth value."""
    if isinstance(e, ast.UnaryOp) and isinstance(e.op, ast.Not):
        o = e.operand
        if isinstance(o, ast.UnaryOp) and isinstance(o.op, ast.Not):
            return as_test(o.operand)
        if isinstance(o, ast.Compare) and len(o.ops) == 1 and type(o.ops[0]) in NEG_OPS:
            return negate(o)
        if isinstance(o, ast.BoolOp):
            return as_test(negate(o))
        return _loc(ast.UnaryOp(op=ast.Not(), operand=as_test(o)), e)
    if isinstance(e, ast.BoolOp):
        return _loc(ast.BoolOp(op=e.op, values=[as_test(v) for v in e.values]), e)
    if isinstance(e, ast.IfExp):
        # as a truth value: `False if c else X` is `not c and X`, `True if c else X` is `c or X`, and likewise for a constant else-arm
        def const(x):
            return x.value if isinstance(x, ast.Constant) and isinstance(x.value, bool) else None
        b, o = const(e.body), const(e.orelse)
        c = as_test(e.test)
        if b is False:
            return as_test(_loc(ast.BoolOp(op=ast.And(), values=[as_test(negate(c)), as_test(e.orelse)]), e))
        if b is True:
            return as_test(_loc(ast.BoolOp(op=ast.Or(), values=[c, as_test(e.orelse)]), e))
        if o is False:
            return as_test(_loc(ast.BoolOp(op=ast.And(), values=[c, as_test(e.body)]), e))
        if o is True:
            return as_test(_loc(ast.BoolOp(op=ast.Or(), values=[as_test(negate(c)), as_test(e.body)]), e))
    return e


class _NNF(ast.NodeTransformer):
    def visit_UnaryOp(self, n):
        self.generic_visit(n)
        if isinstance(n.op, ast.Not):
            o = n.operand
            if isinstance(o, ast.Compare) and len(o.ops) == 1 and type(o.ops[0]) in NEG_OPS:
                return negate(o)
            if isinstance(o, ast.BoolOp):
                return self.visit(negate(o))
            return _loc(ast.UnaryOp(op=ast.Not(), operand=as_test(o)), n)
        return n

    def visit_If(self, n):
        self.generic_visit(n)
        n.test = as_test(n.test)
        return n

    visit_While = visit_If

    def visit_IfExp(self, n):
        self.generic_visit(n)
        n.test = as_test(n.test)
        # canonical polarity
        neg = as_test(negate(n.test))
        if (_neg_score(neg), norm(neg)) < (_neg_score(n.test), norm(n.test)):
            n.test, n.body, n.orelse = neg, n.orelse, n.body
        return n

    def visit_comprehension(self, n):
        self.generic_visit(n)
        n.ifs = [as_test(i) for i in n.ifs]
        return n

    def visit_Assert(self, n):
        self.generic_visit(n)
        n.test = as_test(n.test)
        return n


# ------------------------------------------------------------------------------------------------ helpers on blocks
def _terminates(block: List[ast.stmt]) -> bool:
    if not block:
        return False
    last = block[-1]
    if isinstance(last, TERMINAL):
        return True
    if isinstance(last, ast.If) and last.orelse:
        return _terminates(last.body) and _terminates(last.orelse)
    if isinstance(last, ast.Try) and not last.finalbody and not last.orelse:
        return _terminates(last.body) and all(_terminates(h.body) for h in last.handlers)
    return False


def _neg_score(test: ast.expr) -> int:
    return sum(1 for n in ast.walk(test) if isinstance(n, (ast.Not, ast.NotEq, ast.IsNot, ast.NotIn)))


def _arm_key(arm: List[ast.stmt], test: ast.expr, extra: int = 0):
    """Ordering of the two ways of writing a two-armed branch: the shorter arm first; then the test with fewer
    negations; then by statement kinds; the spelling of names is consulted last."""
    return (_size(arm) + extra, _neg_score(test), [type(s).__name__ for s in arm], norm(test))


def _size(block: List[ast.stmt]) -> int:
    # a bare `...` statement stands for "many statements" (skeletons of formulint.expect)
    return sum(1000 if (isinstance(_, ast.Expr) and isinstance(_.value, ast.Constant) and _.value.value is Ellipsis) else 1
               for st in block for _ in ast.walk(st) if isinstance(_, ast.stmt))


def _loads(node: ast.AST, name: str) -> List[ast.Name]:
    return [n for n in ast.walk(node) if isinstance(n, ast.Name) and n.id == name and isinstance(n.ctx, ast.Load)]


def _stores(node: ast.AST, name: str) -> int:
    c = 0
    for n in ast.walk(node):
        if isinstance(n, ast.Name) and n.id == name and isinstance(n.ctx, (ast.Store, ast.Del)):
            c += 1
        elif isinstance(n, ast.arg) and n.arg == name:
            c += 1
        elif isinstance(n, (ast.Global, ast.Nonlocal)) and name in n.names:
            c += 5
    return c


def _free_loads(node: ast.AST, name: str) -> bool:
    """Does ``node`` read ``name`` other than inside a lambda / comprehension that binds it itself?"""
    if isinstance(node, ast.Lambda):
        a = node.args
        if any(x.arg == name for x in list(a.args) + list(a.kwonlyargs) + list(a.posonlyargs)):
            return False
    if isinstance(node, (ast.ListComp, ast.SetComp, ast.GeneratorExp, ast.DictComp)):
        bound = {n.id for g in node.generators for n in ast.walk(g.target) if isinstance(n, ast.Name)}
        if name in bound:
            # only the first iterable is evaluated in the enclosing scope
            return _free_loads(node.generators[0].iter, name)
    if isinstance(node, ast.Name):
        return node.id == name and isinstance(node.ctx, ast.Load)
    return any(_free_loads(c, name) for c in ast.iter_child_nodes(node))


def _dead_after(stmts: List[ast.stmt], name: str) -> bool:
    """No statement of ``stmts`` can read the value ``name`` holds on entry."""
    for k, s in enumerate(stmts):
        if isinstance(s, ast.Assign) and any(isinstance(t, ast.Name) and t.id == name for t in s.targets) and not _free_loads(s.value, name):
            return True
        if isinstance(s, (ast.For, ast.AsyncFor)) and any(isinstance(n, ast.Name) and n.id == name for n in ast.walk(s.target)) \
                and not _free_loads(s.iter, name):
            # rebinding loop: the old value is visible afterwards only if the loop runs zero times
            return not any(_free_loads(x, name) for x in s.orelse + stmts[k + 1:])
        if _free_loads(s, name):
            return False
    return True


def _simple_target(st: ast.stmt) -> Optional[str]:
    if isinstance(st, ast.Assign) and len(st.targets) == 1 and isinstance(st.targets[0], ast.Name):
        return st.targets[0].id
    if isinstance(st, ast.AnnAssign) and isinstance(st.target, ast.Name) and st.value is not None and st.simple:
        return st.target.id
    return None


def _merge_calls(s1: ast.stmt, s2: ast.stmt, test: ast.expr):
    if not (isinstance(s1, ast.Expr) and isinstance(s2, ast.Expr) and isinstance(s1.value, ast.Call) and isinstance(s2.value, ast.Call)):
        return None
    c1, c2 = s1.value, s2.value
    if norm(c1.func) != norm(c2.func) or len(c1.args) != len(c2.args) or [norm(k) for k in c1.keywords] != [norm(k) for k in c2.keywords]:
        return None
    if any(isinstance(n, ast.Call) for n in ast.walk(c1.func)):
        return None
    diff = [k for k, (a, b) in enumerate(zip(c1.args, c2.args)) if norm(a) != norm(b)]
    if len(diff) != 1 or any(isinstance(a, ast.Starred) for a in c1.args + c2.args):
        return None
    k = diff[0]
    if any(isinstance(n, ast.Call) for a in c1.args[:k] for n in ast.walk(a)):
        return None  # arguments evaluated before the test would be reordered
    new = copy.deepcopy(c1)
    new.args[k] = _NNF().visit(ast.IfExp(test=test, body=c1.args[k], orelse=c2.args[k]))
    return ast.Expr(value=new)


def _any_target(st: ast.stmt):
    if isinstance(st, ast.Assign) and len(st.targets) == 1 and isinstance(st.targets[0], (ast.Name, ast.Subscript, ast.Attribute)):
        return st.targets[0]
    return None


class _Rename(ast.NodeTransformer):
    def __init__(self, mapping: Dict[str, ast.expr]):
        self.mapping = mapping

    def visit_Name(self, n):
        if n.id in self.mapping:
            r = self.mapping[n.id]
            if isinstance(n.ctx, ast.Load):
                return _loc(copy.deepcopy(r), n)
            if isinstance(r, ast.Name):
                return _loc(ast.Name(id=r.id, ctx=n.ctx), n)
        return n


# ------------------------------------------------------------------------------------------------ function-level passes
_PURE_BUILTINS = {"len", "isinstance", "issubclass", "str", "repr", "int", "float", "bool", "tuple", "list", "set", "frozenset", "dict", "sorted", "reversed",
                  "enumerate", "zip", "range", "min", "max", "sum", "any", "all", "type", "id", "hasattr", "getattr", "callable", "abs", "round"}


class FunctionNormalizer:
    """Normalises statement lists; ``fall`` describes what falling off the end of a block means."""

    def __init__(self, owner: "Normalizer"):
        self.owner = owner
        self.changed = False

    # ---- entry
    def function(self, fn: ast.AST) -> None:
        if isinstance(fn, ast.Lambda):
            return
        for _ in range(6):
            self.changed = False
            self.len_tests(fn)
            self._count(fn)
            self.alias_attributes(fn)
            self.coalesce_copies(fn)
            self._count(fn)
            doc, body = _docstring_split(fn.body)
            body = self.block(body, fall="return", fn=fn)
            fn.body = doc + (body or [ast.Pass()])
            if not self.changed:
                break

    def _count(self, fn):
        import collections
        self.n_stores, self.n_loads = collections.Counter(), collections.Counter()
        for n in ast.walk(fn):
            if isinstance(n, ast.Name):
                if isinstance(n.ctx, ast.Load):
                    self.n_loads[n.id] += 1
                else:
                    self.n_stores[n.id] += 1
            elif isinstance(n, ast.arg):
                self.n_stores[n.arg] += 1
            elif isinstance(n, (ast.Global, ast.Nonlocal)):
                for x in n.names:
                    self.n_stores[x] += 5

    # ---- N15: emptiness tests of a local that is always a builtin collection: `len(v) == 0` -> `not v`, `len(v) > 0` -> `v`
    _COLLECTION_CALLS = {"set", "list", "dict", "tuple", "frozenset", "sorted"}

    def len_tests(self, fn) -> None:
        stores: Dict[str, List[Optional[ast.expr]]] = {}
        for n in ast.walk(fn):
            if isinstance(n, ast.Assign) and len(n.targets) == 1 and isinstance(n.targets[0], ast.Name):
                stores.setdefault(n.targets[0].id, []).append(n.value)
            elif isinstance(n, ast.AnnAssign) and isinstance(n.target, ast.Name) and n.value is not None:
                stores.setdefault(n.target.id, []).append(n.value)
            elif isinstance(n, ast.Name) and isinstance(n.ctx, (ast.Store, ast.Del)):
                stores.setdefault(n.id, [])
            elif isinstance(n, ast.arg):
                stores.setdefault(n.arg, []).append(None)
            elif isinstance(n, (ast.Global, ast.Nonlocal)):
                for x in n.names:
                    stores.setdefault(x, []).append(None)
        n_name_stores: Dict[str, int] = {}
        for n in ast.walk(fn):
            if isinstance(n, ast.Name) and isinstance(n.ctx, (ast.Store, ast.Del)):
                n_name_stores[n.id] = n_name_stores.get(n.id, 0) + 1

        def collection(v) -> bool:
            while isinstance(v, ast.Call) and norm(v.func) in ("cast", "typing.cast") and len(v.args) == 2:
                v = v.args[1]
            return isinstance(v, (ast.List, ast.Set, ast.Dict, ast.Tuple, ast.ListComp, ast.SetComp, ast.DictComp)) or (
                isinstance(v, ast.Call) and isinstance(v.func, ast.Name) and v.func.id in self._COLLECTION_CALLS)
        coll = {k for k, vs in stores.items() if vs and len(vs) == n_name_stores.get(k, 0) and all(v is not None and collection(v) for v in vs)}
        if not coll:
            return
        me = self

        def rewrite(e: ast.expr) -> ast.expr:
            if isinstance(e, ast.BoolOp):
                e.values = [rewrite(v) for v in e.values]
                return e
            if isinstance(e, ast.UnaryOp) and isinstance(e.op, ast.Not):
                e.operand = rewrite(e.operand)
                return e
            if isinstance(e, ast.Compare) and len(e.ops) == 1 and isinstance(e.comparators[0], ast.Constant) and type(e.comparators[0].value) is int \
                    and isinstance(e.left, ast.Call) and norm(e.left.func) == "len" and len(e.left.args) == 1 and isinstance(e.left.args[0], ast.Name) \
                    and e.left.args[0].id in coll:
                k, op, v = e.comparators[0].value, type(e.ops[0]), e.left.args[0]
                if (k, op) in ((0, ast.Eq), (0, ast.LtE), (1, ast.Lt)):
                    me.changed = True
                    return _loc(ast.UnaryOp(op=ast.Not(), operand=v), e)
                if (k, op) in ((0, ast.NotEq), (0, ast.Gt), (1, ast.GtE)):
                    me.changed = True
                    return v
            return e

        for n in ast.walk(fn):
            if isinstance(n, (ast.If, ast.While, ast.IfExp, ast.Assert)):
                n.test = rewrite(n.test)
            elif isinstance(n, ast.comprehension):
                n.ifs = [rewrite(i) for i in n.ifs]

    # ---- N11: a local alias of an attribute chain (`t = self.x`) is replaced by the chain where nothing can have rebound it
    def alias_attributes(self, fn) -> None:
        for owner, field in _blocks(fn):
            body = getattr(owner, field)
            i = 0
            while i < len(body):
                st = body[i]
                t = _simple_target(st)
                if t and self._alias_ok(t, st, body[i + 1:], fn):
                    for rest in body[i + 1:]:
                        for use in _loads(rest, t):
                            _ReplaceNode(use, _loc_all(copy.deepcopy(st.value), use)).visit(rest)
                    del body[i]
                    if not body:
                        body.append(_loc(ast.Pass(), st))
                    self._mark()
                    continue
                i += 1

    # ---- N14: `a = b` where b is not read afterwards and a does not occur before: b IS a (one variable under two names)
    def coalesce_copies(self, fn) -> None:
        if isinstance(fn, ast.Lambda):
            return
        for _round in range(8):
            order: Dict[int, int] = {}

            def go(n):
                order[id(n)] = len(order)
                for c in ast.iter_child_nodes(n):
                    go(c)
            go(fn)
            params = {x.arg for x in ast.walk(fn.args) if isinstance(x, ast.arg)}
            nested = {id(x) for n in ast.walk(fn) if isinstance(n, (ast.FunctionDef, ast.AsyncFunctionDef, ast.Lambda, ast.ClassDef)) and n is not fn for x in ast.walk(n)}
            occ: Dict[str, List[ast.Name]] = {}
            for n in ast.walk(fn):
                if isinstance(n, ast.Name):
                    occ.setdefault(n.id, []).append(n)
            done = False
            for owner, field in _blocks(fn):
                blk = getattr(owner, field)
                for i, st in enumerate(blk):
                    if not (isinstance(st, ast.Assign) and len(st.targets) == 1 and isinstance(st.targets[0], ast.Name) and isinstance(st.value, ast.Name)):
                        continue
                    a, b = st.targets[0].id, st.value.id
                    if a == b or a in params or b in params or any(isinstance(n, (ast.Global, ast.Nonlocal)) for n in ast.walk(fn)):
                        continue
                    if any(id(n) in nested for n in occ.get(a, []) + occ.get(b, [])):
                        continue
                    here = order[id(st)]
                    a_ok = all(order[id(n)] > here for n in occ.get(a, []) if n is not st.targets[0]) 
                    b_ok = all(order[id(n)] < here or n is st.value for n in occ.get(b, [])) and any(isinstance(n.ctx, ast.Store) for n in occ.get(b, []))
                    # inside a loop the copy runs again: b must be (re)bound in every iteration before it is read, which is the case
                    # when its first occurrence in the loop is a store; keep to the simple case that b's first occurrence at all is a store
                    first_b = min(occ.get(b, []), key=lambda n: order[id(n)], default=None)
                    if not (a_ok and b_ok and first_b is not None and isinstance(first_b.ctx, ast.Store)):
                        continue
                    for n in occ[b]:
                        n.id = a
                    del blk[i]
                    if not blk:
                        blk.append(_loc(ast.Pass(), st))
                    self._mark()
                    done = True
                    break
                if done:
                    break
            if not done:
                return

    def _alias_ok(self, t: str, st: ast.stmt, rest: List[ast.stmt], fn) -> bool:
        v = st.value
        # a pure read: names, attribute chains, constants, comparisons / arithmetic / subscripts of those (no call, no lazily
        # evaluated operand, no display of a mutable object — `x = []` used twice is ONE list)
        if not isinstance(v, (ast.Attribute, ast.Compare, ast.BinOp, ast.UnaryOp, ast.Subscript)) or any(
                not isinstance(n, (ast.Name, ast.Attribute, ast.Constant, ast.Compare, ast.BinOp, ast.UnaryOp, ast.Subscript, ast.Slice, ast.Tuple, ast.Load,
                                   ast.operator, ast.unaryop, ast.cmpop)) for n in ast.walk(v)):
            return False
        names_v = {n.id for n in ast.walk(v) if isinstance(n, ast.Name)}
        if t in names_v or not names_v:
            return False
        if self._is_param(fn, t) or self.n_stores[t] != 1 or self.n_loads[t] < 2:
            return False
        if sum(len(_loads(r, t)) for r in rest) != self.n_loads[t]:
            return False
        text = norm(v)
        chain_case = isinstance(v, ast.Attribute) and all(isinstance(n, (ast.Attribute, ast.Name, ast.Load)) for n in ast.walk(v))
        prefixes, state_roots = set(names_v), set()
        for n in ast.walk(v):
            if isinstance(n, (ast.Attribute, ast.Subscript)):
                c = n
                while isinstance(c, (ast.Attribute, ast.Subscript)):
                    if isinstance(c, ast.Attribute):
                        prefixes.add(norm(c))
                    c = c.value
                if isinstance(c, ast.Name):
                    state_roots.add(c.id)

        # a parameter annotated with a frozen dataclass of the project: no call can re-bind its attributes, so `t = spec.structure`
        # stays valid across calls that are handed `spec` (only re-binding the name `spec` itself ends it)
        frozen_roots = set()
        if chain_case and isinstance(v.value, ast.Name) and hasattr(fn, "args"):
            for a_ in list(fn.args.posonlyargs) + list(fn.args.args) + list(fn.args.kwonlyargs):
                if a_.arg == v.value.id and a_.annotation is not None and norm(a_.annotation).split(".")[-1].strip("'\"") in self.owner.frozen_classes:
                    frozen_roots.add(a_.arg)
        state_roots -= frozen_roots

        def kills(node) -> bool:
            """Can evaluating ``node`` change what the expression reads?  A store to one of its names / attribute prefixes or
            into an object it reads from, or a call that is handed such an object."""
            parents = {}
            for n in ast.walk(node):
                for ch in ast.iter_child_nodes(n):
                    parents[id(ch)] = n
            for n in ast.walk(node):
                if isinstance(n, (ast.Name, ast.Attribute, ast.Subscript)) and isinstance(getattr(n, "ctx", None), (ast.Store, ast.Del)):
                    if isinstance(n, (ast.Name, ast.Attribute)) and norm(n) in prefixes:
                        return True
                    b_ = n
                    while isinstance(b_, (ast.Attribute, ast.Subscript)):
                        b_ = b_.value
                    if isinstance(n, (ast.Attribute, ast.Subscript)) and isinstance(b_, ast.Name) and b_.id in state_roots and not chain_case:
                        return True
                if isinstance(n, ast.Name) and n.id in state_roots and isinstance(n.ctx, ast.Load):
                    # the largest attribute chain this mention is the root of
                    top = n
                    while isinstance(parents.get(id(top)), ast.Attribute) and parents[id(top)].value is top:
                        top = parents[id(top)]
                    tt = norm(top)
                    if chain_case and (tt == text or tt.startswith(text + ".")):
                        continue  # the aliased object itself
                    # is the mention inside a call (receiver or argument)?
                    q = top
                    while id(q) in parents:
                        q = parents[id(q)]
                        if isinstance(q, ast.Call) and isinstance(q.func, ast.Name) and q.func.id in _PURE_BUILTINS:
                            continue   # len(x), isinstance(x, T), sorted(x) … read their argument and change nothing
                        if isinstance(q, (ast.Call, ast.Await, ast.Yield, ast.YieldFrom)):
                            return True
                        if isinstance(q, ast.stmt):
                            break
            return False

        def deferred(node, use) -> bool:
            path = _path_to(node, use) or []
            for parent, child in zip(path, path[1:]):
                if isinstance(parent, (ast.Lambda, ast.FunctionDef, ast.AsyncFunctionDef, ast.ClassDef)):
                    return True
                if isinstance(parent, ast.GeneratorExp) and not (parent.generators and _contains(parent.generators[0].iter, use)):
                    return True
            return False

        ok = [True]

        # arithmetic with a numeric literal / a comparison: the value is a number or a truth value, not a container that could be
        # shared and mutated
        scalar_like = isinstance(v, (ast.BinOp, ast.Compare)) and any(
            isinstance(n, ast.Constant) and isinstance(n.value, (int, float)) and not isinstance(n.value, bool) for n in ast.walk(v)) and not any(
            isinstance(n, (ast.Subscript, ast.Attribute)) for n in ast.walk(v))

        def read_only(node, u) -> bool:
            """A COMPUTED value (not an alias of an existing object) may be re-computed at a use only if that use merely reads it:
            a store into it, a method call on it or handing it to arbitrary code would act on a fresh object each time."""
            if chain_case:
                return True
            path = _path_to(node, u) or []
            # the value of `a if c else t` / `(t)` flows on: judge the use by what consumes the enclosing conditional
            while len(path) >= 2 and isinstance(path[-2], ast.IfExp) and path[-2].test is not path[-1]:
                path = path[:-1]
                u = path[-1]
            if len(path) < 2:
                return False
            par = path[-2]
            if isinstance(par, (ast.Compare, ast.BinOp, ast.UnaryOp, ast.BoolOp, ast.FormattedValue, ast.Return, ast.Starred, ast.comprehension)):
                return True
            if isinstance(par, (ast.If, ast.While, ast.IfExp, ast.Assert)):
                return par.test is u
            if isinstance(par, (ast.For, ast.AsyncFor)):
                return par.iter is u
            if isinstance(par, ast.Subscript):
                return par.slice is u or isinstance(par.ctx, ast.Load)
            if isinstance(par, ast.Attribute):
                gp = path[-3] if len(path) >= 3 else None
                return isinstance(par.ctx, ast.Load) and not (isinstance(gp, ast.Call) and gp.func is par)
            if isinstance(par, ast.Call):
                if isinstance(par.func, ast.Name) and par.func.id in _PURE_BUILTINS and par.func is not u:
                    return True
                return scalar_like and par.func is not u
            if isinstance(par, (ast.Tuple, ast.List, ast.Set, ast.Dict, ast.Slice, ast.keyword)):
                return scalar_like   # `n + 1` inside a shape tuple or as an argument: a number, re-computable anywhere
            return False

        def expr(node, live) -> bool:
            uses = _loads(node, t)
            k = kills(node)
            if uses and (not live or any(deferred(node, u) for u in uses) or not all(read_only(node, u) for u in uses)):
                ok[0] = False
            elif uses and k:
                # only what is evaluated BEFORE a use within the same expression can spoil it (operands left to right, arguments
                # before the call); inside a construct that is evaluated repeatedly, anything in it can
                for u in uses:
                    path = _path_to(node, u) or []
                    for parent, child in zip(path, path[1:]):
                        if isinstance(parent, (ast.ListComp, ast.SetComp, ast.DictComp, ast.GeneratorExp, ast.Lambda, ast.BoolOp, ast.IfExp)) and kills(parent):
                            ok[0] = False
                        for sib in _evaluated_before(parent, child):
                            if kills(sib):
                                ok[0] = False
            return live and not k

        def walk(stmts, live) -> bool:
            for s in stmts:
                if not ok[0]:
                    return False
                if isinstance(s, ast.If):
                    live = expr(s.test, live)
                    a = walk(s.body, live)
                    b = walk(s.orelse, live)
                    live = a and b
                elif isinstance(s, (ast.For, ast.AsyncFor, ast.While)):
                    inner = live and not kills(s)
                    hdr = s.iter if not isinstance(s, ast.While) else s.test
                    expr(hdr, inner)
                    if not isinstance(s, ast.While) and _loads(s.target, t):
                        ok[0] = False
                    walk(s.body, inner)
                    walk(s.orelse, inner)
                    live = inner
                elif isinstance(s, (ast.With, ast.AsyncWith)):
                    for it in s.items:
                        live = expr(it, live)
                    live = walk(s.body, live)
                elif isinstance(s, ast.Try) or s.__class__.__name__ == "TryStar":
                    inner = live and not kills(s)
                    walk(s.body, inner)
                    for h in s.handlers:
                        if h.type is not None:
                            expr(h.type, inner)
                        walk(h.body, inner)
                    walk(s.orelse, inner)
                    walk(s.finalbody, inner)
                    live = inner
                elif isinstance(s, (ast.FunctionDef, ast.AsyncFunctionDef, ast.ClassDef)):
                    if _loads(s, t):
                        ok[0] = False
                elif isinstance(s, (ast.Assign, ast.AnnAssign, ast.AugAssign)) and s.value is not None:
                    tg = s.targets if isinstance(s, ast.Assign) else [s.target]
                    if any(_loads(x, t) for x in tg) and kills(s):
                        ok[0] = False
                    if not all(read_only(s, u) for x in tg for u in _loads(x, t)):
                        ok[0] = False   # `t[k] = v` stores INTO the object t names
                    value_live = expr(s.value, live)
                    live = value_live and not any(kills(x) for x in tg)
                else:
                    live = expr(s, live)
            return live

        walk(rest, True)
        return ok[0]

    # ---- a block
    def block(self, body: List[ast.stmt], fall: Optional[str], fn: ast.AST) -> List[ast.stmt]:
        body = list(body)
        # recurse first
        for i, st in enumerate(body):
            last = i == len(body) - 1
            inner_fall = fall if last else None
            if isinstance(st, ast.If):
                st.body = self.block(st.body, inner_fall, fn) or [ast.Pass()]
                st.orelse = self.block(st.orelse, inner_fall, fn)
            elif isinstance(st, (ast.For, ast.AsyncFor, ast.While)):
                st.body = self.block(st.body, "continue", fn) or [ast.Pass()]
                st.orelse = self.block(st.orelse, None, fn)
            elif isinstance(st, (ast.With, ast.AsyncWith)):
                st.body = self.block(st.body, None, fn) or [ast.Pass()]
            elif isinstance(st, ast.Try) or st.__class__.__name__ == "TryStar":
                st.body = self.block(st.body, None, fn) or [ast.Pass()]
                for h in st.handlers:
                    h.body = self.block(h.body, None, fn) or [ast.Pass()]
                st.orelse = self.block(st.orelse, None, fn)
                st.finalbody = self.block(st.finalbody, None, fn)
        body = self.ann_assign(body)
        body = self.guards(body, fall)
        body = self.if_to_ifexp(body, fn, fall)
        body = self.loops_to_comprehensions(body, fn)
        body = self.inner_def_to_lambda(body, fn)
        body = self.inline_temps(body, fn)
        body = [st for st in body if not (isinstance(st, ast.Pass) and len(body) > 1)]
        return body

    def _mark(self):
        self.changed = True

    # ---- N9
    def ann_assign(self, body):
        out = []
        for st in body:
            if isinstance(st, ast.Assign) and len(st.targets) == 1 and isinstance(st.targets[0], (ast.Tuple, ast.List)) \
                    and isinstance(st.value, (ast.Tuple, ast.List)) and len(st.value.elts) == len(st.targets[0].elts) \
                    and all(isinstance(x, ast.Name) for x in st.targets[0].elts) and not any(isinstance(x, ast.Starred) for x in st.value.elts) \
                    and len({x.id for x in st.targets[0].elts}) == len(st.targets[0].elts):
                names = [x.id for x in st.targets[0].elts]
                # `a, b = X, Y` is `a = X; b = Y` when no right-hand side reads a name the statement binds
                if not any(isinstance(n, ast.Name) and n.id in names for v in st.value.elts for n in ast.walk(v)) and \
                        not any(isinstance(n, (ast.Lambda, ast.NamedExpr)) for v in st.value.elts for n in ast.walk(v)):
                    for tg, v in zip(st.targets[0].elts, st.value.elts):
                        out.append(_loc(ast.Assign(targets=[tg], value=v), st))
                    self._mark()
                    continue
            if isinstance(st, ast.AnnAssign) and st.value is not None and isinstance(st.target, (ast.Name, ast.Attribute, ast.Subscript)):
                out.append(_loc(ast.Assign(targets=[st.target], value=st.value), st))
                self._mark()
            elif isinstance(st, ast.AnnAssign) and st.value is None and len(body) > 1:
                self._mark()  # a bare declaration `x: T` has no run-time effect inside a function
            else:
                out.append(st)
        return out

    # ---- N2
    def guards(self, body, fall):
        for i, st in enumerate(body):
            if not isinstance(st, ast.If):
                continue
            rest = body[i + 1:]
            # else after a terminating arm: hoist
            if st.orelse and _terminates(st.body):
                new = _loc(ast.If(test=st.test, body=st.body, orelse=[]), st)
                self._mark()
                return self.guards(body[:i] + [new] + st.orelse + rest, fall)
            if st.orelse and _terminates(st.orelse) and not _terminates(st.body):
                new = _loc(ast.If(test=as_test(negate(st.test)), body=st.orelse, orelse=[]), st)
                self._mark()
                return self.guards(body[:i] + [new] + st.body + rest, fall)
            # trailing if/else in a block whose end means continue / return: make the shorter arm a guard
            if st.orelse and not rest and fall in ("continue", "return") and not (
                    len(st.orelse) == 1 and isinstance(st.orelse[0], ast.If)):
                a, b, test = st.body, st.orelse, st.test
                if _arm_key(b, as_test(negate(test))) < _arm_key(a, test):
                    a, b, test = b, a, as_test(negate(test))
                term = _loc(ast.Continue() if fall == "continue" else ast.Return(value=None), a[-1])
                new = _loc(ast.If(test=test, body=a + [term], orelse=[]), st)
                self._mark()
                return self.guards(body[:i] + [new] + b, fall)
            # plain two-armed branch that stays a branch: canonical polarity
            if st.orelse and not (len(st.orelse) == 1 and isinstance(st.orelse[0], ast.If)) and not _terminates(st.body) \
                    and not _terminates(st.orelse) and (rest or fall not in ("continue", "return")):
                nt = as_test(negate(st.test))
                if _arm_key(st.orelse, nt) < _arm_key(st.body, st.test):
                    st.test, st.body, st.orelse = nt, st.orelse, st.body
                    self._mark()
            # trailing `if c: A` (no else) where falling through means continue / return: `if not c: <fall> ; A`
            if not st.orelse and not rest and fall in ("continue", "return") and not _terminates(st.body):
                term = _loc(ast.Continue() if fall == "continue" else ast.Return(value=None), st)
                new = _loc(ast.If(test=as_test(negate(st.test)), body=[term], orelse=[]), st)
                self._mark()
                return self.guards(body[:i] + [new] + st.body, fall)
            # guard followed by the rest of a block that ends the function / iteration: shorter arm first
            if not st.orelse and _terminates(st.body) and rest and fall in ("continue", "return"):
                if not any(isinstance(s, (ast.FunctionDef, ast.ClassDef)) for s in rest):
                    a, b = st.body, rest
                    # the arm that would become the guard must terminate too: add the implicit terminator
                    if _arm_key(b, as_test(negate(st.test)), 0 if _terminates(b) else 1) < _arm_key(a, st.test):
                        bb = list(b)
                        if not _terminates(bb):
                            bb.append(_loc(ast.Continue() if fall == "continue" else ast.Return(value=None), bb[-1]))
                        new = _loc(ast.If(test=as_test(negate(st.test)), body=bb, orelse=[]), st)
                        self._mark()
                        return self.guards(body[:i] + [new] + a, fall)
        # drop a redundant trailing `continue` / bare `return` at the end of a block where it is implied
        if body and fall == "continue" and isinstance(body[-1], ast.Continue) and len(body) > 1:
            self._mark()
            return self.guards(body[:-1], fall)
        if body and fall == "return" and isinstance(body[-1], ast.Return) and body[-1].value is None and len(body) > 1:
            self._mark()
            return self.guards(body[:-1], fall)
        return body

    # ---- N3
    def if_to_ifexp(self, body, fn, fall=None):
        out = []
        i = 0
        while i < len(body):
            st = body[i]
            nxt = body[i + 1] if i + 1 < len(body) else None
            if isinstance(st, ast.If):
                # if c: return A ; return B
                if (not st.orelse and len(st.body) == 1 and isinstance(st.body[0], ast.Return) and isinstance(nxt, ast.Return)
                        and st.body[0].value is not None and nxt.value is not None):
                    e = _NNF().visit(_loc(ast.IfExp(test=st.test, body=st.body[0].value, orelse=nxt.value), st))
                    out.append(_loc(ast.Return(value=e), st))
                    self._mark()
                    i += 2
                    continue
                # if c: T = A ; <fall> ;; T = B (end of block)  ->  T = A if c else B
                if (not st.orelse and len(st.body) == 2 and i + 2 == len(body) and fall in ("continue", "return")
                        and ((fall == "continue" and isinstance(st.body[1], ast.Continue))
                             or (fall == "return" and isinstance(st.body[1], ast.Return) and st.body[1].value is None))):
                    t1, t2 = _any_target(st.body[0]), _any_target(nxt)
                    if t1 is not None and t2 is not None and norm(t1) == norm(t2):
                        e = _NNF().visit(_loc(ast.IfExp(test=st.test, body=st.body[0].value, orelse=nxt.value), st))
                        out.append(_loc(ast.Assign(targets=[t1], value=e), st))
                        self._mark()
                        i += 2
                        continue
                # if c: f(.., A, ..) else: f(.., B, ..)  ->  f(.., A if c else B, ..)   (also in guard form at the end of a block)
                pair = None
                if len(st.body) == 1 and len(st.orelse) == 1:
                    pair = (st.body[0], st.orelse[0], 1)
                elif (not st.orelse and len(st.body) == 2 and i + 2 == len(body) and fall in ("continue", "return")
                      and ((fall == "continue" and isinstance(st.body[1], ast.Continue))
                           or (fall == "return" and isinstance(st.body[1], ast.Return) and st.body[1].value is None))):
                    pair = (st.body[0], nxt, 2)
                if pair is not None:
                    merged = _merge_calls(pair[0], pair[1], st.test)
                    if merged is not None:
                        out.append(_loc(merged, st))
                        self._mark()
                        i += pair[2]
                        continue
                # if c: T = A else: T = B for non-name targets
                if len(st.body) == 1 and len(st.orelse) == 1:
                    t1, t2 = _any_target(st.body[0]), _any_target(st.orelse[0])
                    if t1 is not None and t2 is not None and norm(t1) == norm(t2) and not isinstance(t1, ast.Name):
                        e = _NNF().visit(_loc(ast.IfExp(test=st.test, body=st.body[0].value, orelse=st.orelse[0].value), st))
                        out.append(_loc(ast.Assign(targets=[t1], value=e), st))
                        self._mark()
                        i += 1
                        continue
                ta = _simple_target(st.body[0]) if len(st.body) == 1 else None
                if ta and len(st.orelse) == 1 and _simple_target(st.orelse[0]) == ta:
                    e = _NNF().visit(_loc(ast.IfExp(test=st.test, body=st.body[0].value, orelse=st.orelse[0].value), st))
                    out.append(_loc(ast.Assign(targets=[ast.Name(id=ta, ctx=ast.Store())], value=e), st))
                    self._mark()
                    i += 1
                    continue
                if ta and not st.orelse and (self._is_param(fn, ta) or _loads(st.test, ta)):
                    keep = _loc(ast.Name(id=ta, ctx=ast.Load()), st)
                    e = _NNF().visit(_loc(ast.IfExp(test=st.test, body=st.body[0].value, orelse=keep), st))
                    out.append(_loc(ast.Assign(targets=[ast.Name(id=ta, ctx=ast.Store())], value=e), st))
                    self._mark()
                    i += 1
                    continue
            out.append(st)
            i += 1
        return out

    @staticmethod
    def _is_param(fn, name):
        a = getattr(fn, "args", None)
        if a is None:
            return False
        return any(x.arg == name for x in list(a.posonlyargs) + list(a.args) + list(a.kwonlyargs))

    # ---- N4
    def loops_to_comprehensions(self, body, fn):
        out = []
        i = 0
        while i < len(body):
            st = body[i]
            nxt = body[i + 1] if i + 1 < len(body) else None
            acc = _simple_target(st)
            kind = None
            if acc and isinstance(nxt, ast.For) and not nxt.orelse:
                v = st.value
                if (isinstance(v, ast.List) and not v.elts) or (isinstance(v, ast.Call) and norm(v) == "list()"):
                    kind = "list"
                elif (isinstance(v, ast.Dict) and not v.keys) or (isinstance(v, ast.Call) and norm(v) == "dict()"):
                    kind = "dict"
                elif isinstance(v, ast.Call) and norm(v) == "set()":
                    kind = "set"
            comp = self._as_comprehension(nxt, acc, kind, fn, body[i + 2:]) if kind else None
            if comp is not None:
                out.append(_loc(ast.Assign(targets=[ast.Name(id=acc, ctx=ast.Store())], value=comp), st))
                self._mark()
                i += 2
                continue
            out.append(st)
            i += 1
        return out

    def _as_comprehension(self, loop: ast.For, acc: str, kind: str, fn, after) -> Optional[ast.expr]:
        gens = []
        cur: ast.stmt = loop
        targets = []
        while True:
            if isinstance(cur, ast.For) and not cur.orelse and len(cur.body) == 1:
                if _loads(cur.iter, acc):
                    return None
                gens.append(ast.comprehension(target=cur.target, iter=cur.iter, ifs=[], is_async=0))
                targets += [n.id for n in ast.walk(cur.target) if isinstance(n, ast.Name)]
                cur = cur.body[0]
            elif (isinstance(cur, ast.For) and not cur.orelse and len(cur.body) == 2 and isinstance(cur.body[0], ast.If)
                  and not cur.body[0].orelse and len(cur.body[0].body) == 1 and isinstance(cur.body[0].body[0], ast.Continue)):
                # for x in it: if c: continue ; S   ==   for x in it: if not c: S
                if _loads(cur.iter, acc) or _loads(cur.body[0].test, acc):
                    return None
                gens.append(ast.comprehension(target=cur.target, iter=cur.iter, ifs=[as_test(negate(cur.body[0].test))], is_async=0))
                targets += [n.id for n in ast.walk(cur.target) if isinstance(n, ast.Name)]
                cur = cur.body[1]
            elif isinstance(cur, ast.If) and not cur.orelse and len(cur.body) == 1 and gens:
                if _loads(cur.test, acc):
                    return None
                gens[-1].ifs.append(cur.test)
                cur = cur.body[0]
            else:
                break
        if not gens:
            return None
        # loop variables must not be used after the loop (a comprehension has its own scope)
        for t in targets:
            if not _dead_after(after, t):
                return None
        elt = key = None
        if kind in ("list", "set") and isinstance(cur, ast.Expr) and isinstance(cur.value, ast.Call):
            c = cur.value
            want = "append" if kind == "list" else "add"
            if (isinstance(c.func, ast.Attribute) and c.func.attr == want and isinstance(c.func.value, ast.Name)
                    and c.func.value.id == acc and len(c.args) == 1 and not c.keywords and not _loads(c.args[0], acc)):
                elt = c.args[0]
        elif kind == "dict" and isinstance(cur, ast.Assign) and len(cur.targets) == 1:
            t = cur.targets[0]
            if (isinstance(t, ast.Subscript) and isinstance(t.value, ast.Name) and t.value.id == acc
                    and not _loads(t.slice, acc) and not _loads(cur.value, acc)):
                key, elt = t.slice, cur.value
        if elt is None:
            return None
        if kind == "list":
            return _loc(ast.ListComp(elt=elt, generators=gens), loop)
        if kind == "set":
            return _loc(ast.SetComp(elt=elt, generators=gens), loop)
        return _loc(ast.DictComp(key=key, value=elt, generators=gens), loop)

    # ---- N7
    def inner_def_to_lambda(self, body, fn):
        for i, st in enumerate(body):
            if not (isinstance(st, ast.FunctionDef) and not st.decorator_list):
                continue
            doc, fb = _docstring_split(st.body)
            if not (len(fb) == 1 and isinstance(fb[0], ast.Return) and fb[0].value is not None):
                continue
            a = st.args
            if a.vararg or a.kwarg or a.kwonlyargs or a.posonlyargs:
                continue
            if _loads(st, st.name):
                continue  # recursive
            uses = [n for s in body[i + 1:] for n in _loads(s, st.name)]
            if len(uses) != 1 or any(_stores(s, st.name) for s in body[i + 1:]):
                continue
            holder = None
            for s in body[i + 1:]:
                if uses[0] in list(ast.walk(s)):
                    holder = s
            if holder is None or isinstance(holder, (ast.FunctionDef, ast.ClassDef, ast.For, ast.While)):
                continue
            # must be used as a call argument (not called directly) — it is then a value, as a lambda is
            ok = False
            for n in ast.walk(holder):
                if isinstance(n, ast.Call) and (uses[0] in n.args or any(k.value is uses[0] for k in n.keywords)):
                    ok = True
            if not ok:
                continue
            args = copy.deepcopy(a)
            for x in args.args:
                x.annotation = None
            lam = _loc(ast.Lambda(args=args, body=fb[0].value), st)
            _ReplaceNode(uses[0], lam).visit(holder)
            self._mark()
            return self.inner_def_to_lambda(body[:i] + body[i + 1:], fn)
        return body

    # ---- N5
    def inline_temps(self, body, fn):
        i = 0
        body = list(body)
        while i + 1 < len(body):
            st, nxt = body[i], body[i + 1]
            t = _simple_target(st)
            if (t and _simple_target(nxt) == t and len(_loads(nxt.value, t)) == 1 and self._use_position_ok(nxt, _loads(nxt.value, t)[0], st.value)):
                # t = E ; t = G[t]   ->   t = G[E]   (the intermediate value is visible nowhere else)
                _ReplaceNode(_loads(nxt.value, t)[0], st.value).visit(nxt)
                del body[i]
                self._mark()
                i = max(i - 1, 0)
                continue
            if t and self._can_inline_pure_multi(t, st, nxt, fn):
                # t = <pure expression> ; S(t, …, t)  ->  S(E, …, E)   (a hoisted common sub-expression)
                for use in _loads(nxt, t):
                    _ReplaceNode(use, copy.deepcopy(st.value)).visit(nxt)
                del body[i]
                self._mark()
                i = max(i - 1, 0)
                continue
            if t and self._can_inline(t, st, nxt, fn):
                use = self._single_use(nxt, t)
                _ReplaceNode(use, st.value).visit(nxt)
                del body[i]
                self._mark()
                i = max(i - 1, 0)
                continue
            i += 1
        return body

    def _can_inline_pure_multi(self, t: str, st: ast.stmt, nxt: ast.stmt, fn) -> bool:
        if self._is_param(fn, t) or self.n_stores[t] != 1 or self.n_loads[t] < 2:
            return False
        v = st.value
        if any(isinstance(n, (ast.Call, ast.Await, ast.Yield, ast.YieldFrom, ast.NamedExpr, ast.Lambda, ast.ListComp, ast.SetComp, ast.DictComp,
                              ast.GeneratorExp, ast.IfExp, ast.BoolOp, ast.Dict, ast.List, ast.Set)) for n in ast.walk(v)):
            return False  # (a display builds a NEW mutable object each time it is evaluated: two uses of the local share one object)
        if not isinstance(nxt, (ast.Assign, ast.AugAssign, ast.Expr, ast.Return)):
            return False
        uses = _loads(nxt, t)
        if len(uses) != self.n_loads[t]:
            return False  # used elsewhere too
        for u in uses:
            path = _path_to(nxt, u) or []
            if any(isinstance(p, (ast.Lambda, ast.FunctionDef, ast.GeneratorExp, ast.ListComp, ast.SetComp, ast.DictComp)) for p in path):
                return False
        # the statement must not rebind / store into anything the expression reads
        free = {n.id for n in ast.walk(v) if isinstance(n, ast.Name)}
        if isinstance(nxt, (ast.Assign, ast.AugAssign)):
            tg = nxt.targets if isinstance(nxt, ast.Assign) else [nxt.target]
            for x in tg:
                b = x
                while isinstance(b, (ast.Subscript, ast.Attribute)):
                    b = b.value
                if isinstance(b, ast.Name) and b.id in free and isinstance(nxt, ast.AugAssign):
                    return False
        return True

    def _single_use(self, st: ast.stmt, name: str) -> Optional[ast.Name]:
        uses = _loads(st, name)
        return uses[0] if len(uses) == 1 else None

    def _can_inline(self, t: str, st: ast.stmt, nxt: ast.stmt, fn) -> bool:
        if self._is_param(fn, t):
            return False
        if self.n_stores[t] != 1 or self.n_loads[t] != 1:
            return False
        if isinstance(nxt, (ast.FunctionDef, ast.AsyncFunctionDef, ast.ClassDef, ast.While)):
            return False
        use = self._single_use(nxt, t)
        if use is None:
            return False
        return self._use_position_ok(nxt, use, st.value)

    def _use_position_ok(self, nxt: ast.stmt, use: ast.Name, value: ast.expr) -> bool:
        # the use must be evaluated exactly once when control reaches nxt: in the header of a compound statement,
        # and not inside a lambda / comprehension element / nested def
        headers: List[ast.AST]
        if isinstance(nxt, ast.If):
            headers = [nxt.test]
        elif isinstance(nxt, (ast.For, ast.AsyncFor)):
            headers = [nxt.iter]
        elif isinstance(nxt, (ast.With, ast.AsyncWith)):
            headers = [nxt.items[0].context_expr] if nxt.items else []
        elif isinstance(nxt, ast.Try) or nxt.__class__.__name__ == "TryStar":
            return False
        else:
            headers = [nxt]
        path = None
        for h in headers:
            path = _path_to(h, use)
            if path:
                break
        if not path:
            return False
        pure_value = not any(isinstance(n, (ast.Call, ast.Await, ast.Yield, ast.YieldFrom, ast.NamedExpr)) for n in ast.walk(value))
        # a value that reads object state (x.a, x[k]) must not move past a call either: the call may change that state
        reads_state = any(isinstance(n, (ast.Attribute, ast.Subscript)) for n in ast.walk(value))
        for parent, child in zip(path, path[1:]):
            if isinstance(parent, (ast.Lambda, ast.FunctionDef, ast.GeneratorExp, ast.ListComp, ast.SetComp, ast.DictComp)):
                # only the first iterable of a comprehension is evaluated once, immediately
                if isinstance(parent, (ast.GeneratorExp, ast.ListComp, ast.SetComp, ast.DictComp)) and parent.generators and \
                        _contains(parent.generators[0].iter, use) and not isinstance(parent, ast.GeneratorExp):
                    continue
                return False
            if isinstance(parent, ast.comprehension):
                continue
            if isinstance(parent, (ast.BoolOp, ast.IfExp)):
                # conditionally evaluated operands: inlining would make the evaluation of E conditional
                if isinstance(parent, ast.BoolOp) and parent.values[0] is not child:
                    if not pure_value:
                        return False
                if isinstance(parent, ast.IfExp) and parent.test is not child:
                    if not pure_value:
                        return False
            if not pure_value or reads_state:
                for sib in _evaluated_before(parent, child):
                    if any(isinstance(n, (ast.Call, ast.Await, ast.Yield, ast.YieldFrom)) for n in ast.walk(sib)):
                        return False
        return True


def _contains(root: ast.AST, node: ast.AST) -> bool:
    return any(n is node for n in ast.walk(root))


def _path_to(root: ast.AST, target: ast.AST) -> Optional[List[ast.AST]]:
    if root is target:
        return [root]
    for c in ast.iter_child_nodes(root):
        p = _path_to(c, target)
        if p:
            return [root] + p
    return None


def _evaluated_before(parent: ast.AST, child: ast.AST) -> List[ast.AST]:
    """Children of ``parent`` evaluated before ``child``."""
    if isinstance(parent, (ast.Assign, ast.AugAssign, ast.AnnAssign)):
        # the value is evaluated first; targets afterwards
        val = parent.value
        if child is val:
            return []
        return [val] if val is not None else []
    if isinstance(parent, ast.Dict):
        order = []
        for k, v in zip(parent.keys, parent.values):
            if k is not None:
                order.append(k)
            order.append(v)
    else:
        order = list(ast.iter_child_nodes(parent))
    out = []
    for c in order:
        if c is child:
            break
        out.append(c)
    return out


class _ReplaceNode(ast.NodeTransformer):
    def __init__(self, old, new):
        self.old, self.new = old, new

    def visit(self, node):
        if node is self.old:
            return self.new
        return super().visit(node)


# ------------------------------------------------------------------------------------------------ expression-level
def _format_to_fstring(n: ast.Call) -> Optional[ast.JoinedStr]:
    """'{}.{}'.format(a, b) / '{0!r}'.format(a)  ->  f'{a}.{b}' / f'{a!r}'  (plain positional fields only)."""
    if not (isinstance(n.func, ast.Attribute) and n.func.attr == "format" and isinstance(n.func.value, ast.Constant)
            and isinstance(n.func.value.value, str) and not n.keywords and not any(isinstance(a, ast.Starred) for a in n.args)):
        return None
    import string
    parts: List[ast.expr] = []
    auto = 0
    try:
        for lit, field, spec, conv in string.Formatter().parse(n.func.value.value):
            if lit:
                parts.append(ast.Constant(value=lit))
            if field is None:
                continue
            if spec:
                return None
            if field == "":
                idx = auto
                auto += 1
            elif field.isdigit():
                idx = int(field)
            else:
                return None
            if idx >= len(n.args):
                return None
            parts.append(ast.FormattedValue(value=n.args[idx], conversion=ord(conv) if conv else -1, format_spec=None))
    except ValueError:
        return None
    # merge adjacent constants
    merged: List[ast.expr] = []
    for p in parts:
        if merged and isinstance(p, ast.Constant) and isinstance(merged[-1], ast.Constant):
            merged[-1] = ast.Constant(value=merged[-1].value + p.value)
        else:
            merged.append(p)
    return ast.JoinedStr(values=merged)


class _Consumers(ast.NodeTransformer):
    """f([listcomp]) -> f(genexp) for consuming builtins; list(gen)/set(gen) -> comprehension displays;
    str.format with plain fields -> f-string; {repr(x)} -> {x!r}; isinstance(x, A) or isinstance(x, B) -> isinstance(x, (A, B));
    `a if a else b` -> `a or b`."""

    def visit_FormattedValue(self, n):
        self.generic_visit(n)
        v = n.value
        if n.conversion == -1 and isinstance(v, ast.Call) and isinstance(v.func, ast.Name) and v.func.id in ("repr", "str") and len(v.args) == 1 and not v.keywords \
                and n.format_spec is None:
            return _loc(ast.FormattedValue(value=v.args[0], conversion=ord("r") if v.func.id == "repr" else ord("s"), format_spec=None), n)
        return n

    def visit_BoolOp(self, n):
        self.generic_visit(n)
        # `a or (b or c)` == `a or b or c` (and likewise for `and`)
        flat: List[ast.expr] = []
        for v in n.values:
            if isinstance(v, ast.BoolOp) and type(v.op) is type(n.op):
                flat += v.values
            else:
                flat.append(v)
        n.values = flat
        if isinstance(n.op, ast.Or):
            out: List[ast.expr] = []
            for v in n.values:
                prev = out[-1] if out else None
                if (prev is not None and isinstance(v, ast.Call) and isinstance(prev, ast.Call) and isinstance(v.func, ast.Name) and v.func.id == "isinstance"
                        and isinstance(prev.func, ast.Name) and prev.func.id == "isinstance" and len(v.args) == 2 and len(prev.args) == 2
                        and not v.keywords and not prev.keywords and norm(v.args[0]) == norm(prev.args[0])
                        and not any(isinstance(x, ast.Call) for x in ast.walk(v.args[0]))):
                    def types(e):
                        return list(e.elts) if isinstance(e, ast.Tuple) else [e]
                    tup = _loc(ast.Tuple(elts=types(prev.args[1]) + types(v.args[1]), ctx=ast.Load()), prev)
                    out[-1] = _loc(ast.Call(func=prev.func, args=[prev.args[0], tup], keywords=[]), prev)
                else:
                    out.append(v)
            if len(out) == 1:
                return out[0]
            n.values = out
        return n

    def visit_IfExp(self, n):
        self.generic_visit(n)
        pure = not any(isinstance(x, (ast.Call, ast.Await, ast.NamedExpr)) for x in ast.walk(n.test))
        if pure and norm(n.test) == norm(n.body):
            return self.visit_BoolOp(_loc(ast.BoolOp(op=ast.Or(), values=[n.body, n.orelse]), n))   # a if a else b
        if pure and isinstance(n.test, ast.UnaryOp) and isinstance(n.test.op, ast.Not) and norm(n.test.operand) == norm(n.orelse):
            return self.visit_BoolOp(_loc(ast.BoolOp(op=ast.Or(), values=[n.orelse, n.body]), n))   # b if not a else a
        return n

    def visit_Subscript(self, n):
        self.generic_visit(n)
        v = n.value
        # (a, b)[1] is b when the elements that are dropped cannot have effects
        if isinstance(n.ctx, ast.Load) and isinstance(v, ast.Tuple) and isinstance(n.slice, ast.Constant) and isinstance(n.slice.value, int) \
                and not isinstance(n.slice.value, bool) and 0 <= n.slice.value < len(v.elts) and not any(isinstance(e, ast.Starred) for e in v.elts):
            dropped = [e for k, e in enumerate(v.elts) if k != n.slice.value]
            if all(not any(isinstance(x, (ast.Call, ast.Await, ast.Yield, ast.YieldFrom, ast.NamedExpr)) and not (
                    isinstance(x, ast.Call) and isinstance(x.func, ast.Name) and x.func.id in _PURE_BUILTINS) for x in ast.walk(e)) for e in dropped):
                return v.elts[n.slice.value]
        # re.Match: m.span()[0] is m.start(), m.span()[1] is m.end()
        if isinstance(n.ctx, ast.Load) and isinstance(v, ast.Call) and isinstance(v.func, ast.Attribute) and v.func.attr == "span" and not v.args and not v.keywords \
                and isinstance(n.slice, ast.Constant) and n.slice.value in (0, 1) and not isinstance(n.slice.value, bool):
            return _loc(ast.Call(func=_loc(ast.Attribute(value=v.func.value, attr="start" if n.slice.value == 0 else "end", ctx=ast.Load()), n), args=[], keywords=[]), n)
        return n

    @staticmethod
    def _operator_lambda(n):
        """operator.methodcaller / attrgetter / itemgetter with plain (name or constant) arguments, as the lambda they stand for."""
        if not isinstance(n, ast.Call):
            return None
        fq = norm(n.func)
        plain = lambda x: isinstance(x, (ast.Name, ast.Constant)) or (isinstance(x, ast.Starred) and isinstance(x.value, ast.Name))
        if fq in ("methodcaller", "operator.methodcaller") and n.args and isinstance(n.args[0], ast.Constant) and isinstance(n.args[0].value, str) \
                and n.args[0].value.isidentifier() and all(plain(a) for a in n.args[1:]) and all(plain(k.value) for k in n.keywords):
            recv = _loc(ast.Name(id="_obj", ctx=ast.Load()), n)
            call = _loc(ast.Call(func=_loc(ast.Attribute(value=recv, attr=n.args[0].value, ctx=ast.Load()), n), args=n.args[1:], keywords=n.keywords), n)
            return _loc(ast.Lambda(args=ast.arguments(posonlyargs=[], args=[ast.arg(arg="_obj")], kwonlyargs=[], kw_defaults=[], defaults=[]), body=call), n)
        if fq in ("attrgetter", "operator.attrgetter") and len(n.args) == 1 and not n.keywords and isinstance(n.args[0], ast.Constant) and isinstance(n.args[0].value, str) \
                and all(p_.isidentifier() for p_ in n.args[0].value.split(".")):
            body = _loc(ast.Name(id="_obj", ctx=ast.Load()), n)
            for p_ in n.args[0].value.split("."):
                body = _loc(ast.Attribute(value=body, attr=p_, ctx=ast.Load()), n)
            return _loc(ast.Lambda(args=ast.arguments(posonlyargs=[], args=[ast.arg(arg="_obj")], kwonlyargs=[], kw_defaults=[], defaults=[]), body=body), n)
        if fq in ("itemgetter", "operator.itemgetter") and len(n.args) == 1 and not n.keywords and plain(n.args[0]) and not isinstance(n.args[0], ast.Starred):
            body = _loc(ast.Subscript(value=_loc(ast.Name(id="_obj", ctx=ast.Load()), n), slice=n.args[0], ctx=ast.Load()), n)
            return _loc(ast.Lambda(args=ast.arguments(posonlyargs=[], args=[ast.arg(arg="_obj")], kwonlyargs=[], kw_defaults=[], defaults=[]), body=body), n)
        return None

    def visit_Call(self, n):
        self.generic_visit(n)
        name = n.func.id if isinstance(n.func, ast.Name) else (n.func.attr if isinstance(n.func, ast.Attribute) else None)
        if name == "dict" and isinstance(n.func, ast.Name) and len(n.args) == 1 and not n.keywords and isinstance(n.args[0], (ast.GeneratorExp, ast.ListComp)) \
                and isinstance(n.args[0].elt, ast.Tuple) and len(n.args[0].elt.elts) == 2 and not any(isinstance(x, ast.Starred) for x in n.args[0].elt.elts):
            a = n.args[0]
            return _loc(ast.DictComp(key=a.elt.elts[0], value=a.elt.elts[1], generators=a.generators), n)   # dict((k, v) for …) is {k: v for …}
        if norm(n.func) in ("cast", "typing.cast") and len(n.args) == 2 and not n.keywords:
            return n.args[1]  # typing.cast is the identity at run time
        # N16 (only where the callable is handed straight to another call, so creation and use see the same bindings)
        n.args = [self._operator_lambda(a) or a for a in n.args]
        for k in n.keywords:
            k.value = self._operator_lambda(k.value) or k.value
        fs = _format_to_fstring(n)
        if fs is not None:
            return self.generic_visit(_loc(fs, n)) if False else _loc(fs, n)
        if len(n.args) == 1 and not n.keywords and isinstance(n.func, ast.Name):
            a = n.args[0]
            if name == "list" and isinstance(a, (ast.GeneratorExp, ast.ListComp)):
                return _loc(ast.ListComp(elt=a.elt, generators=a.generators), n)
            if name == "set" and isinstance(a, (ast.GeneratorExp, ast.ListComp, ast.SetComp)):
                return _loc(ast.SetComp(elt=a.elt, generators=a.generators), n)
        if name in CONSUMERS | {"join"} and n.args and isinstance(n.args[0], ast.ListComp) and len(n.args) == 1:
            a = n.args[0]
            n.args = [_loc(ast.GeneratorExp(elt=a.elt, generators=a.generators), a)]
        return n


# ------------------------------------------------------------------------------------------------ the module normaliser
class Normalizer:
    """Built from the raw Project (for helper / signature resolution); ``module(tree)`` returns a normalised deep copy."""

    def __init__(self, raw_project):
        self.P = raw_project
        self.known = _names_known_to_rules()
        self.by_name: Dict[str, list] = {}
        for fi in raw_project.functions.values():
            if isinstance(fi.node, ast.Lambda):
                continue
            self.by_name.setdefault(fi.node.name, []).append(fi)
        # classes whose instances cannot have an attribute re-bound: @dataclass(frozen=True)
        self.frozen_classes = {c.node.name for c in raw_project.classes.values()
                               if any("frozen=True" in norm(d) for d in c.node.decorator_list)}
        self.helpers = self._find_helpers()
        self.helper_nodes = {}
        for name, fi in self.helpers.items():
            node = copy.deepcopy(fi.node)
            _NNF().visit(node)
            FunctionNormalizer(self).function(node)
            self.helper_nodes[name] = node
        self.signatures = self._find_signatures()
        self.stats = {"helpers_inlinable": sorted(self.helpers), "helper_sites_inlined": 0}

    # ---- N6 candidates
    def _find_helpers(self) -> Dict[str, object]:
        out = {}
        self.capturing: Set[str] = set()
        for name, fis in self.by_name.items():
            if len(fis) != 1:
                continue
            fi = fis[0]
            fn = fi.node
            if name.startswith("__") and name.endswith("__"):
                continue
            if name in self.known or isinstance(fn, ast.AsyncFunctionDef):
                continue
            if fi.parent is None and not name.startswith("_"):
                continue
            if fi.parent is not None and not self._closure_free(fi):
                # a closure: its body may still stand in place of a call made from the very function that defines it (it reads the
                # same variables there), provided it only READS what it captures
                if isinstance(fi.parent.node, ast.Lambda) or any(isinstance(n, (ast.Nonlocal, ast.Global)) for n in ast.walk(fn)):
                    continue
                self.capturing.add(name)
            decos = [norm(d) for d in fn.decorator_list]
            if any(d not in ("staticmethod", "classmethod") for d in decos):
                continue
            a = fn.args
            if a.vararg or a.kwarg or a.posonlyargs:
                continue
            if any(isinstance(n, (ast.Yield, ast.YieldFrom, ast.Await, ast.Global, ast.Nonlocal, ast.FunctionDef, ast.ClassDef))
                   for st in fn.body for n in ast.walk(st)):
                continue
            # lambdas are fine unless one of their parameters has the name of a parameter / local of the helper (substitution
            # of the helper's names would then have to look inside the lambda's scope)
            own_names = {x.arg for x in ast.walk(fn.args) if isinstance(x, ast.arg)} | {
                n.id for st in fn.body for n in ast.walk(st) if isinstance(n, ast.Name) and isinstance(n.ctx, ast.Store)}
            # (checked where the helper is inlined: see _lambda_clash)
            if any(isinstance(n, ast.Name) and n.id == name for n in ast.walk(fn)) or any(
                    isinstance(n, ast.Attribute) and n.attr in (name, self._mangled(fi, name)) for st in fn.body for n in ast.walk(st)):
                continue  # recursive
            if sum(1 for st in fn.body for _ in ast.walk(st) if isinstance(_, ast.stmt)) > 25:
                continue
            out[name] = fi
        return out

    @staticmethod
    def _mangled(fi, name):
        return name

    @staticmethod
    def _closure_free(fi) -> bool:
        """No name read in the nested function is bound by an enclosing function (parameters and locals of the whole chain)."""
        fn = fi.node
        own = {x.arg for x in ast.walk(fn.args) if isinstance(x, ast.arg)}
        own |= {n.id for n in ast.walk(fn) if isinstance(n, ast.Name) and isinstance(n.ctx, (ast.Store, ast.Del))}
        free = {n.id for n in ast.walk(fn) if isinstance(n, ast.Name) and isinstance(n.ctx, ast.Load)} - own
        p = fi.parent
        while p is not None:
            pn = p.node
            if isinstance(pn, ast.Lambda):
                return False
            outer = {x.arg for x in ast.walk(pn.args) if isinstance(x, ast.arg)}
            for n in ast.walk(pn):
                if n is fn:
                    continue
                if isinstance(n, ast.Name) and isinstance(n.ctx, (ast.Store, ast.Del)):
                    outer.add(n.id)
                elif isinstance(n, (ast.FunctionDef, ast.AsyncFunctionDef, ast.ClassDef)):
                    outer.add(n.name)
                elif isinstance(n, (ast.Import, ast.ImportFrom)):
                    outer |= {(a.asname or a.name).split(".")[0] for a in n.names}
            if free & (outer - {fn.name}):
                return False
            p = p.parent
        return True

    def _find_signatures(self) -> Dict[str, List[str]]:
        sig = {}
        self.defaults: Dict[str, Dict[str, ast.Constant]] = {}
        for name, fis in self.by_name.items():
            if name in ARG_STOP or (name.startswith("__") and name.endswith("__")):
                continue
            lists = set()
            ok = True
            for fi in fis:
                a = fi.node.args
                if a.vararg or a.posonlyargs or fi.parent is not None:
                    ok = False
                    break
                ps = [x.arg for x in a.args]
                if fi.cls is not None and ps and "staticmethod" not in [norm(d) for d in fi.node.decorator_list]:
                    ps = ps[1:]
                lists.add(tuple(ps))
            if ok and len(lists) == 1:
                sig[name] = list(lists.pop())
                # constant defaults every definition of the name agrees on
                per = []
                for fi in fis:
                    a = fi.node.args
                    d = {}
                    for x, dv in zip(a.args[len(a.args) - len(a.defaults):], a.defaults):
                        if isinstance(dv, ast.Constant):
                            d[x.arg] = dv
                    for x, dv in zip(a.kwonlyargs, a.kw_defaults):
                        if isinstance(dv, ast.Constant):
                            d[x.arg] = dv
                    per.append(d)
                common = {k: v for k, v in per[0].items() if all(k in d and norm(d[k]) == norm(v) for d in per)}
                if common:
                    self.defaults[name] = common
        return sig

    # ---- entry
    def module(self, tree: ast.Module, modname: Optional[str] = None) -> ast.Module:
        self._mi = self.P.modules.get(modname) if modname else None
        key = (modname, self._mi.source if self._mi is not None else ast.dump(tree), self._context_digest())
        hit = _MODULE_CACHE.get(key)
        if hit is not None:
            return hit
        out = self._module(tree)
        if len(_MODULE_CACHE) > 4000:
            _MODULE_CACHE.clear()
        _MODULE_CACHE[key] = out
        return out

    def _context_digest(self):
        if getattr(self, "_digest", None) is None:
            import hashlib
            h = hashlib.sha1()
            for name in sorted(self.helper_nodes):
                h.update(name.encode())
                h.update(ast.dump(self.helper_nodes[name]).encode())
            h.update(repr(sorted(self.signatures.items())).encode())
            # plain-name calls resolve through imports to module-level functions: their parameter lists matter too
            sig = sorted((q, tuple(x.arg for x in fi.node.args.args)) for q, fi in self.P.functions.items()
                         if fi.cls is None and fi.parent is None and not isinstance(fi.node, ast.Lambda))
            h.update(repr(sig).encode())
            self._digest = h.hexdigest()
        return self._digest

    def _module(self, tree: ast.Module) -> ast.Module:
        tree = copy.deepcopy(tree)
        # per-function normalisation of helper bodies happens as part of the general pass; inline first on a normalised copy
        self._inline_helpers(tree)      # helper calls standing as statements of their own, before temporaries are folded into expressions
        self._normalize_functions(tree)
        self._inline_helpers(tree)      # … and those that normalisation has brought into statement position
        self._normalize_functions(tree)
        tree = _Consumers().visit(tree)
        self._keyword_args(tree)
        tree = ast.fix_missing_locations(tree)
        self._restore_names(tree)
        return tree

    # ---- N10 local names
    def _restore_names(self, tree):
        """Alpha-conversion towards the names the rules were written against: when a function has, up to the names of
        its local variables (parameters and locals of nested functions included), exactly the normal form recorded in
        reference_names.json, its locals are renamed to the recorded names.  Renaming locals consistently never changes
        behaviour; the record is only a hint and is ignored when the structure differs."""
        ref = _reference_names()
        if not ref or self._mi is None:
            return
        from .util import canon_map
        import hashlib
        prefix = self._mi.name

        def visit(body, qual):
            for st in body:
                if isinstance(st, (ast.FunctionDef, ast.AsyncFunctionDef)):
                    q = f"{qual}.{st.name}"
                    cands = [r for k, r in ref.items() if k == q or k.startswith(q + "#")]
                    if cands:
                        text, order = canon_map(st)
                        h = hashlib.sha1(text.encode()).hexdigest()
                        for r in cands:
                            if r["canon"] == h and len(r["names"]) == len(order) and r["names"] != order:
                                from .util import alpha_rename
                                alpha_rename(st, r["names"])
                                self.stats["names_restored"] = self.stats.get("names_restored", 0) + 1
                                break
                elif isinstance(st, ast.ClassDef):
                    visit(st.body, f"{qual}.{st.name}")

        visit(tree.body, prefix)

    def _normalize_functions(self, tree):
        _NNF().visit(tree)
        for n in ast.walk(tree):
            if isinstance(n, (ast.FunctionDef, ast.AsyncFunctionDef)):
                FunctionNormalizer(self).function(n)
        _NNF().visit(tree)

    # ---- N8
    def _keyword_args(self, tree):
        """Positional arguments beyond the first of a call to an unambiguously resolved project function or method
        (never a nested function: their parameter names are private and get renamed) are written as keywords."""
        for n in ast.walk(tree):
            if not isinstance(n, ast.Call):
                continue
            name = n.func.id if isinstance(n.func, ast.Name) else (n.func.attr if isinstance(n.func, ast.Attribute) else None)
            ps = self.signatures.get(name)
            if isinstance(n.func, ast.Name) and self._mi is not None:
                # plain names resolve through the module's imports (aliases included)
                q = self.P.resolve_expr(self._mi, n.func)
                fi = self.P.functions.get(q) if q else None
                if fi is not None and not isinstance(fi.node, ast.Lambda) and fi.cls is None and fi.parent is None:
                    a = fi.node.args
                    ps = None if (a.vararg or a.posonlyargs) else [x.arg for x in a.args]
            if ps and not n.args and n.keywords and n.keywords[0].arg == ps[0] and not any(k.arg is None for k in n.keywords):
                n.args = [n.keywords[0].value]   # the first parameter is written positionally
                n.keywords = n.keywords[1:]
            if not ps or len(n.args) < 2 or any(isinstance(a, ast.Starred) for a in n.args) or len(n.args) > len(ps):
                continue
            given = {k.arg for k in n.keywords}
            extra = [(ps[i], a) for i, a in enumerate(n.args)][1:]
            if any(p in given for p, _ in extra):
                continue
            n.args = n.args[:1]
            n.keywords = [ast.keyword(arg=p, value=a) for p, a in extra] + n.keywords

    # ---- N6
    def _helper_for_call(self, call: ast.Call):
        f = call.func
        if isinstance(f, ast.Name):
            name, recv = f.id, None
        elif isinstance(f, ast.Attribute):
            name, recv = f.attr, f.value
        else:
            return None
        fi = self.helpers.get(name)
        if fi is None:
            # name-mangled private methods: self.__x is stored as __x in the class body
            return None
        if fi.parent is not None:
            cur = getattr(self, "_cur_fn", None)
            if recv is not None or cur is None or name not in getattr(self, "_visible", {}).get(id(cur), ()):
                return None
            if name in self.capturing:
                # a capturing closure reads variables of the function that defines it: where the call stands — in that function or
                # in another function nested in it — the same names must mean the same variables (not re-bound locally)
                pn = fi.parent.node
                same = getattr(cur, "name", None) == getattr(pn, "name", None) and getattr(cur, "lineno", None) == getattr(pn, "lineno", None)
                if not same:
                    hn = fi.node
                    own = {x.arg for x in ast.walk(hn.args) if isinstance(x, ast.arg)} | {n.id for n in ast.walk(hn) if isinstance(n, ast.Name) and isinstance(n.ctx, ast.Store)}
                    captured = {n.id for n in ast.walk(hn) if isinstance(n, ast.Name) and isinstance(n.ctx, ast.Load)} - own
                    local_here = {x.arg for x in ast.walk(cur.args) if isinstance(x, ast.arg)} | {
                        n.id for n in ast.walk(cur) if isinstance(n, ast.Name) and isinstance(n.ctx, ast.Store)}
                    if captured & local_here:
                        return None
        if any(isinstance(a, ast.Starred) for a in call.args) or any(k.arg is None for k in call.keywords):
            return None
        return fi, recv

    def _bind(self, fi, recv, call):
        """param name -> argument expression (None if the call cannot be bound)."""
        fn = fi.node
        a = fn.args
        params = [x.arg for x in a.args]
        binding: Dict[str, ast.expr] = {}
        decos = [norm(d) for d in fn.decorator_list]
        if fi.cls is not None and "staticmethod" not in decos:
            if not params:
                return None
            binding[params[0]] = recv if recv is not None else ast.Name(id=params[0], ctx=ast.Load())
            params = params[1:]
        if len(call.args) > len(params):
            return None
        for p, v in zip(params, call.args):
            binding[p] = v
        kwonly = [x.arg for x in a.kwonlyargs]
        for k in call.keywords:
            if k.arg in binding or (k.arg not in params and k.arg not in kwonly):
                return None
            binding[k.arg] = k.value
        defaults = dict(zip([x.arg for x in a.args][len(a.args) - len(a.defaults):], a.defaults))
        for x, d in zip(a.kwonlyargs, a.kw_defaults):
            if d is not None:
                defaults[x.arg] = d
        for p in params + kwonly:
            if p not in binding:
                if p not in defaults:
                    return None
                binding[p] = defaults[p]
        return binding

    @staticmethod
    def _trivial(e: ast.expr) -> bool:
        if isinstance(e, (ast.Name, ast.Constant)):
            return True
        if isinstance(e, ast.Attribute):
            return Normalizer._trivial(e.value)
        return False

    def _inline_helpers(self, tree):
        if not self.helpers:
            return
        # a nested helper can be called only from the function that defines it and the functions nested in that one
        self._visible: Dict[int, Set[str]] = {}

        def scope(fn_, inherited):
            mine = set(inherited)
            for st in ast.walk(fn_):
                if isinstance(st, (ast.FunctionDef, ast.AsyncFunctionDef)) and st is not fn_ and st.name in self.helpers and self.helpers[st.name].parent is not None:
                    mine.add(st.name)
            self._visible[id(fn_)] = mine
            stack = list(ast.iter_child_nodes(fn_))
            while stack:
                c = stack.pop()
                if isinstance(c, (ast.FunctionDef, ast.AsyncFunctionDef)):
                    scope(c, mine)
                else:
                    stack.extend(ast.iter_child_nodes(c))

        for top in tree.body:
            if isinstance(top, (ast.FunctionDef, ast.AsyncFunctionDef)):
                scope(top, set())
            elif isinstance(top, ast.ClassDef):
                for m in ast.walk(top):
                    if isinstance(m, (ast.FunctionDef, ast.AsyncFunctionDef)) and id(m) not in self._visible:
                        scope(m, set())
        for fn in [n for n in ast.walk(tree) if isinstance(n, (ast.FunctionDef, ast.AsyncFunctionDef))]:
            if fn.name in self.helpers:
                continue
            self._cur_fn = fn
            for _ in range(4):
                if not self._inline_in_function(fn):
                    break
            # a nested helper whose every call was inlined is no longer referenced: its definition goes
            for owner, field in _blocks(fn):
                blk = getattr(owner, field)
                keep = [st for st in blk if not (isinstance(st, ast.FunctionDef) and st.name in self.helpers and self.helpers[st.name].parent is not None
                                                 and not any(isinstance(x, ast.Name) and x.id == st.name for x in ast.walk(fn)))]
                if len(keep) != len(blk):
                    setattr(owner, field, keep or [_loc(ast.Pass(), blk[0])])
        self._cur_fn = None
        # module-level tables that mention a single-expression private helper by name hold, in effect, that lambda
        inl = _ExprInliner(self)

        class Refs(ast.NodeTransformer):
            def visit_Call(self_, n):
                n.args = [self_.visit(a) for a in n.args]
                n.keywords = [self_.visit(k) for k in n.keywords]
                if not isinstance(n.func, ast.Name):
                    n.func = self_.visit(n.func)
                return n

            def visit_Name(self_, n):
                if isinstance(n.ctx, ast.Load):
                    lam = inl.helper_lambda(n.id)
                    if lam is not None:
                        self.stats["helper_sites_inlined"] += 1
                        return _loc_all(_loc(lam, n), n)
                return n

        for i, st in enumerate(tree.body):
            if isinstance(st, (ast.Assign, ast.AnnAssign, ast.Expr)):
                tree.body[i] = Refs().visit(st)

    def _inline_in_function(self, fn) -> bool:
        # statement positions first
        changed = False
        for owner, field in _blocks(fn):
            block = getattr(owner, field)
            new_block = []
            for st in block:
                rep = self._inline_statement(st, fn)
                if rep is not None:
                    new_block += rep
                    changed = True
                    self.stats["helper_sites_inlined"] += 1
                else:
                    new_block.append(st)
            setattr(owner, field, new_block)
        # expression-bodied helpers anywhere
        tr = _ExprInliner(self)
        for owner, field in _blocks(fn):
            block = getattr(owner, field)
            for st in block:
                if isinstance(st, (ast.If, ast.While)):
                    st.test = tr.visit(st.test)
                elif isinstance(st, (ast.For, ast.AsyncFor)):
                    st.iter = tr.visit(st.iter)
                elif isinstance(st, (ast.With, ast.AsyncWith)):
                    for it in st.items:
                        it.context_expr = tr.visit(it.context_expr)
                elif isinstance(st, (ast.Try, ast.FunctionDef, ast.AsyncFunctionDef, ast.ClassDef)) or st.__class__.__name__ == "TryStar":
                    pass
                else:
                    tr.visit(st)
        if tr.count:
            changed = True
            self.stats["helper_sites_inlined"] += tr.count
        return changed

    def _hoist_helper_call(self, st: ast.stmt, fn) -> Optional[List[ast.stmt]]:
        """`S(… helper(a) …)` with a statement-bodied helper → `tmp = helper(a); S(… tmp …)` when nothing with an effect is
        evaluated before the call within S (the next round inlines the helper at `tmp = …`)."""
        if not isinstance(st, (ast.Expr, ast.Assign, ast.Return, ast.AugAssign)):
            return None
        root = st.value if not isinstance(st, ast.Expr) else st.value
        if root is None:
            return None
        for c in ast.walk(root):
            if not isinstance(c, ast.Call) or c is root:
                continue
            h = self._helper_for_call(c)
            if h is None:
                continue
            fi, _recv = h
            _doc, hb = _docstring_split(self.helper_nodes[fi.node.name].body)
            if len(hb) == 1 and isinstance(hb[0], ast.Return):
                continue   # expression-bodied: _ExprInliner's business
            path = _path_to(st, c) or []
            ok = bool(path)
            for parent, child in zip(path, path[1:]):
                if isinstance(parent, (ast.Lambda, ast.GeneratorExp, ast.ListComp, ast.SetComp, ast.DictComp, ast.IfExp, ast.BoolOp)):
                    ok = False
                for sib in _evaluated_before(parent, child):
                    if any(isinstance(n, (ast.Call, ast.Await, ast.Yield, ast.YieldFrom, ast.NamedExpr)) and not (
                            isinstance(n, ast.Call) and isinstance(n.func, ast.Name) and n.func.id in _PURE_BUILTINS) for n in ast.walk(sib)):
                        ok = False
            if not ok:
                continue
            names = {n.id for n in ast.walk(fn) if isinstance(n, ast.Name)}
            base = "result__" + fi.node.name.strip("_")
            tmp, k = base, 1
            while tmp in names:
                k += 1
                tmp = f"{base}_{k}"
            new_st = copy.deepcopy(st)
            path2 = _path_to(st, c)
            # replace the call in the copy at the same position
            idx = [i for i, n in enumerate(ast.walk(st)) if n is c][0]
            target = list(ast.walk(new_st))[idx]
            _ReplaceNode(target, _loc(ast.Name(id=tmp, ctx=ast.Load()), c)).visit(new_st)
            first = _loc(ast.Assign(targets=[ast.Name(id=tmp, ctx=ast.Store())], value=copy.deepcopy(c)), st)
            return [ast.fix_missing_locations(first), ast.fix_missing_locations(new_st)]
        return None

    @staticmethod
    def _lambda_clash(stmts, mapping) -> bool:
        """A lambda in the helper binds, as a parameter, a name the inlining would substitute."""
        lam = {x.arg for s_ in stmts for n in ast.walk(s_) if isinstance(n, ast.Lambda) for x in ast.walk(n.args) if isinstance(x, ast.arg)}
        return bool(lam & set(mapping))

    def _site_tag(self, fi, fn) -> str:
        """Suffix for the locals of one inlined copy of a helper: the helper's name, numbered from the second copy in the same
        function on (two copies must not share their temporaries)."""
        base = fi.node.name.strip("_")
        names = {n.id for n in ast.walk(fn) if isinstance(n, ast.Name)}
        k, tag = 1, base
        while any(x.endswith("__" + tag) for x in names):
            k += 1
            tag = f"{base}_{k}"
        return tag

    def _inline_multi_return(self, st, fn, fi, recv, call, mode, hb) -> Optional[List[ast.stmt]]:
        """A helper with several returns: as the whole value of a `return` its body stands in place of the statement; as the
        value of `T = helper(…)` its returns become assignments to T (single-exit form)."""
        if mode == "expr" or not _terminates(hb):
            return None
        binding = self._bind(fi, recv, call)
        if binding is None:
            return None
        helper_locals = {n.id for s in hb for n in ast.walk(s) if isinstance(n, ast.Name) and isinstance(n.ctx, ast.Store)}
        caller_names = {n.id for n in ast.walk(fn) if isinstance(n, ast.Name)} | {x.arg for x in ast.walk(fn) if isinstance(x, ast.arg)}
        pre: List[ast.stmt] = []
        mapping: Dict[str, ast.expr] = {}
        tag = self._site_tag(fi, fn)
        for p, v in binding.items():
            uses = sum(len(_loads(s, p)) for s in hb)
            if self._trivial(v) and p not in helper_locals:
                mapping[p] = v
            elif uses <= 1 and p not in helper_locals and not any(isinstance(n, ast.Call) for n in ast.walk(v)) and not (
                    any(isinstance(n, (ast.Attribute, ast.Subscript)) for n in ast.walk(v)) and any(isinstance(n, ast.Call) for s_ in hb for n in ast.walk(s_))):
                mapping[p] = v
            else:
                tmp = f"{p}__{tag}"
                pre.append(_loc(ast.Assign(targets=[ast.Name(id=tmp, ctx=ast.Store())], value=v), st))
                mapping[p] = ast.Name(id=tmp, ctx=ast.Load())
        for l in helper_locals:
            if l not in binding and l in caller_names:
                mapping[l] = ast.Name(id=f"{l}__{tag}", ctx=ast.Load())
        if self._lambda_clash(hb, mapping):
            return None
        body = [_Rename(mapping).visit(s) for s in hb]
        if mode == "return":
            out = body
        else:
            if not (isinstance(st, ast.Assign) and len(st.targets) == 1 and isinstance(st.targets[0], ast.Name)):
                return None
            T = st.targets[0].id
            # (the body may read T — the caller's value, e.g. `data = helper(data)` — since T is only assigned where a path ends)
            out = _eliminate_returns(body, lambda v, ref: _loc(ast.Assign(targets=[ast.Name(id=T, ctx=ast.Store())], value=v), ref))
            if out is None:
                return None
        return [ast.fix_missing_locations(_loc_all(s, st)) for s in pre + out]

    def _inline_statement(self, st: ast.stmt, fn) -> Optional[List[ast.stmt]]:
        call = None
        if isinstance(st, ast.Expr) and isinstance(st.value, ast.Call):
            call, mode = st.value, "expr"
        elif isinstance(st, ast.Return) and isinstance(st.value, ast.Call):
            call, mode = st.value, "return"
        elif isinstance(st, ast.Assign) and isinstance(st.value, ast.Call):
            call, mode = st.value, "assign"
        h = self._helper_for_call(call) if call is not None else None
        if h is None:
            return self._hoist_helper_call(st, fn)
        fi, recv = h
        doc, hb = _docstring_split(copy.deepcopy(self.helper_nodes[fi.node.name].body))
        if not hb:
            return None
        final = hb[-1] if isinstance(hb[-1], ast.Return) else None
        stmts = hb[:-1] if final is not None else hb
        if any(isinstance(n, ast.Return) for s in stmts for n in ast.walk(s)):
            return self._inline_multi_return(st, fn, fi, recv, call, mode, hb)
        # (an expression-bodied helper is usually inlined by _ExprInliner; where that refuses — an argument that is not a plain
        # name is used twice — the statement form below binds the argument to a temporary first)
        if mode != "expr" and (final is None or final.value is None):
            return None
        binding = self._bind(fi, recv, call)
        if binding is None:
            return None
        pre: List[ast.stmt] = []
        mapping: Dict[str, ast.expr] = {}
        site_tag = self._site_tag(fi, fn)
        body_nodes = stmts + ([final] if final else [])
        helper_locals = {n.id for s in body_nodes for n in ast.walk(s) if isinstance(n, ast.Name) and isinstance(n.ctx, ast.Store)}
        target_names = {n.id for t in (st.targets if isinstance(st, ast.Assign) else []) for n in ast.walk(t) if isinstance(n, ast.Name)}
        caller_names = {n.id for n in ast.walk(fn) if isinstance(n, ast.Name)} | {x.arg for x in ast.walk(fn) if isinstance(x, ast.arg)}
        result_var = None
        if (mode == "assign" and len(st.targets) == 1 and isinstance(st.targets[0], ast.Name) and final is not None
                and isinstance(final.value, ast.Name) and final.value.id in helper_locals):
            T = st.targets[0].id
            r = final.value.id
            others = [v for p, v in binding.items() if p != r]
            if not any(_loads(v, T) for v in others) and not any(
                    isinstance(n, ast.Name) and n.id == T and T != r for s in body_nodes for n in ast.walk(s)):
                result_var = (r, T)
        for p, v in binding.items():
            if result_var and p == result_var[0]:
                if not (isinstance(v, ast.Name) and v.id == result_var[1]):
                    pre.append(_loc(ast.Assign(targets=[ast.Name(id=result_var[1], ctx=ast.Store())], value=v), st))
                mapping[p] = ast.Name(id=result_var[1], ctx=ast.Load())
                continue
            reassigned = p in helper_locals
            uses = sum(len(_loads(s, p)) for s in body_nodes)
            if self._trivial(v) and (not reassigned or (isinstance(v, ast.Name) and (v.id in target_names or mode == "return"))):
                mapping[p] = v   # (after `return helper(x)` nothing reads x again: the helper's re-bindings of its parameter may use x itself)
            elif uses <= 1 and not reassigned and not any(isinstance(n, (ast.Call,)) for n in ast.walk(v)) and not (
                    any(isinstance(n, (ast.Attribute, ast.Subscript)) for n in ast.walk(v)) and any(isinstance(n, ast.Call) for s_ in body_nodes for n in ast.walk(s_))):
                mapping[p] = v   # (an argument reading object state is not moved past calls of the helper body)
            else:
                tmp = f"{p}__{site_tag}"
                pre.append(_loc(ast.Assign(targets=[ast.Name(id=tmp, ctx=ast.Store())], value=v), st))
                mapping[p] = ast.Name(id=tmp, ctx=ast.Load())
        for l in helper_locals:
            if l in binding:
                continue
            if result_var and l == result_var[0]:
                mapping[l] = ast.Name(id=result_var[1], ctx=ast.Load())
                continue
            if l in caller_names:
                mapping[l] = ast.Name(id=f"{l}__{site_tag}", ctx=ast.Load())
        if self._lambda_clash(body_nodes, mapping):
            return None
        rn = _Rename(mapping)
        out = pre + [_loc_all(rn.visit(s), st) for s in stmts]
        if final is not None and final.value is not None:
            val = rn.visit(final).value
            if mode == "assign":
                if not (len(st.targets) == 1 and isinstance(st.targets[0], ast.Name) and isinstance(val, ast.Name)
                        and val.id == st.targets[0].id):
                    out.append(_loc(ast.Assign(targets=st.targets, value=val), st))
            elif mode == "return":
                out.append(_loc(ast.Return(value=val), st))
            else:
                pass
        return [ast.fix_missing_locations(s) for s in out] or [_loc(ast.Pass(), st)]


def _eliminate_returns(block: List[ast.stmt], assign) -> Optional[List[ast.stmt]]:
    """``block`` with every `return v` turned into ``assign(v)`` and the code after a returning `if` moved into the other
    arm (single exit); None when a return sits inside a loop / try / with, or an `if` returns on only some of its paths
    while the other arm falls through."""
    out: List[ast.stmt] = []
    for i, s in enumerate(block):
        rest = block[i + 1:]
        if isinstance(s, ast.Return):
            if s.value is None:
                return None
            out.append(assign(s.value, s))
            return out
        has_ret = any(isinstance(n, ast.Return) for n in ast.walk(s))
        if not has_ret:
            out.append(s)
            continue
        if not isinstance(s, ast.If):
            return None
        bt = _terminates(s.body)
        ot = _terminates(s.orelse) if s.orelse else False
        if bt:
            b2 = _eliminate_returns(list(s.body), assign)
            o2 = _eliminate_returns(list(s.orelse) + rest, assign)
        elif ot:
            b2 = _eliminate_returns(list(s.body) + rest, assign)
            o2 = _eliminate_returns(list(s.orelse), assign)
        else:
            return None
        if b2 is None or o2 is None:
            return None
        out.append(_loc(ast.If(test=s.test, body=b2 or [_loc(ast.Pass(), s)], orelse=o2), s))
        return out
    return out


def _loc_all(node, ref):
    for n in ast.walk(node):
        if not hasattr(n, "lineno") and isinstance(n, (ast.stmt, ast.expr)):
            ast.copy_location(n, ref)
    return node


def _blocks(fn):
    """(owner, fieldname) for every statement list inside fn (not nested defs)."""
    out = []
    stack = [fn]
    while stack:
        n = stack.pop()
        for field in ("body", "orelse", "finalbody"):
            b = getattr(n, field, None)
            if isinstance(b, list) and b and isinstance(b[0], ast.stmt):
                out.append((n, field))
                for s in b:
                    if not isinstance(s, (ast.FunctionDef, ast.AsyncFunctionDef, ast.ClassDef)):
                        stack.append(s)
        for h in getattr(n, "handlers", []) or []:
            stack.append(h)
    return out


def _headers(st):
    if isinstance(st, (ast.If, ast.While)):
        return [st.test]
    if isinstance(st, (ast.For, ast.AsyncFor)):
        return [st.iter]
    if isinstance(st, (ast.With, ast.AsyncWith)):
        return [i.context_expr for i in st.items]
    if isinstance(st, (ast.Try, ast.FunctionDef, ast.AsyncFunctionDef, ast.ClassDef)) or st.__class__.__name__ == "TryStar":
        return []
    return [st]


class _ExprInliner(ast.NodeTransformer):
    def __init__(self, owner: Normalizer):
        self.owner = owner
        self.count = 0

    def helper_lambda(self, name: str) -> Optional[ast.Lambda]:
        """`lambda params: expr` for a module-level single-expression private helper (used where it is passed as a value)."""
        fi = self.owner.helpers.get(name)
        if fi is None or fi.cls is not None:
            return None
        node = self.owner.helper_nodes[name]
        doc, hb = _docstring_split(node.body)
        a = node.args
        if not (len(hb) == 1 and isinstance(hb[0], ast.Return) and hb[0].value is not None) or a.kwonlyargs or a.defaults or a.vararg or a.kwarg:
            return None
        args = copy.deepcopy(a)
        for x in args.args:
            x.annotation = None
        return ast.Lambda(args=args, body=copy.deepcopy(hb[0].value))

    def visit_Call(self, n):
        self.generic_visit(n)
        h = self.owner._helper_for_call(n)
        if h is None:
            return n
        fi, recv = h
        doc, hb = _docstring_split(self.owner.helper_nodes[fi.node.name].body)
        if not (len(hb) == 1 and isinstance(hb[0], ast.Return) and hb[0].value is not None):
            return n
        binding = self.owner._bind(fi, recv, n)
        if binding is None:
            return n
        body = copy.deepcopy(hb[0].value)
        for p, v in binding.items():
            uses = len(_loads(body, p))
            pure_call = isinstance(v, ast.Call) and isinstance(v.func, ast.Name) and v.func.id in _PURE_BUILTINS and not v.keywords \
                and all(Normalizer._trivial(a) for a in v.args)   # len(self.token): evaluating it twice changes nothing
            if uses > 1 and not Normalizer._trivial(v) and not pure_call:
                return n
        # names bound inside the expression (comprehension variables) must not capture argument names
        bound = {x.id for x in ast.walk(body) if isinstance(x, ast.Name) and isinstance(x.ctx, ast.Store)}
        for v in binding.values():
            if any(isinstance(x, ast.Name) and x.id in bound for x in ast.walk(v)):
                return n
        self.count += 1
        return _loc_all(_Rename(binding).visit(body), n)


_KNOWN_CACHE: Optional[Set[str]] = None
_REF_NAMES = None
_MODULE_CACHE: Dict[tuple, ast.Module] = {}


def _names_known_to_rules() -> Set[str]:
    """Identifiers that occur anywhere in the rules' sources: a helper with such a name is never inlined, because
    a rule may look for it by name."""
    global _KNOWN_CACHE
    if _KNOWN_CACHE is None:
        d = os.path.join(os.path.dirname(os.path.abspath(__file__)), "rules")
        names: Set[str] = set()
        for f in sorted(os.listdir(d)):
            if f.endswith(".py"):
                with open(os.path.join(d, f), encoding="utf-8") as fh:
                    names.update(re.findall(r"[A-Za-z_][A-Za-z0-9_]*", fh.read()))
        _KNOWN_CACHE = names
    return _KNOWN_CACHE


class _AlphaRename(ast.NodeTransformer):
    def __init__(self, mapping):
        self.m = mapping

    def visit_Name(self, n):
        if n.id in self.m:
            n.id = self.m[n.id]
        return n

    def visit_arg(self, n):
        if n.arg in self.m:
            n.arg = self.m[n.arg]
        return n

    def visit_FunctionDef(self, n):
        if n.name in self.m:
            n.name = self.m[n.name]
        self.generic_visit(n)
        return n


def _reference_names():
    global _REF_NAMES
    if _REF_NAMES is None:
        import json
        p = os.path.join(os.path.dirname(os.path.dirname(os.path.abspath(__file__))), "reference_names.json")
        try:
            with open(p, encoding="utf-8") as fh:
                _REF_NAMES = json.load(fh)
        except Exception:
            _REF_NAMES = {}
    return _REF_NAMES


# ------------------------------------------------------------------------------------------------ statement form
class _Statementise(ast.NodeTransformer):
    """`x = A if c else B` -> if/else assignments; `return A if c else B` -> if/else returns (recursively).
    Applied on top of the normal form it gives a third, equally faithful view in which decisions are statements:
    rules that walk branches statement-wise read it directly."""

    def _expand(self, st, value, make):
        if isinstance(value, ast.IfExp):
            body = self._expand(st, value.body, make)
            orelse = self._expand(st, value.orelse, make)
            return [_loc(ast.If(test=value.test, body=body, orelse=orelse), st)]
        return [make(value)]

    def _prune_self(self, stmts):
        """`x = x` arms of an expanded conditional assignment do nothing: `if c: x = A else: x = x` reads `if c: x = A`."""
        def noop(s):
            return isinstance(s, ast.Assign) and len(s.targets) == 1 and isinstance(s.targets[0], ast.Name) and isinstance(s.value, ast.Name) \
                and s.value.id == s.targets[0].id
        out = []
        for s in stmts:
            if isinstance(s, ast.If):
                s.body, s.orelse = self._prune_self(s.body), self._prune_self(s.orelse)
                if not s.body and not s.orelse:
                    if any(isinstance(n, (ast.Call, ast.Await, ast.NamedExpr)) for n in ast.walk(s.test)):
                        out.append(_loc(ast.Expr(value=s.test), s))
                    continue
                if not s.body:
                    s.test, s.body, s.orelse = _NNF().visit(negate(s.test)), s.orelse, []
                out.append(s)
            elif not noop(s):
                out.append(s)
        return out

    def _block(self, body):
        out = []
        for st in body:
            st = self.visit(st)
            if isinstance(st, ast.Assign) and isinstance(st.value, ast.IfExp):
                out += self._prune_self(self._expand(st, st.value, lambda v, st=st: _loc(ast.Assign(targets=copy.deepcopy(st.targets), value=v), st)))
            elif isinstance(st, ast.Return) and isinstance(st.value, ast.IfExp):
                out += self._expand(st, st.value, lambda v, st=st: _loc(ast.Return(value=v), st))
            else:
                out.append(st)
        return out

    def generic_visit(self, node):
        super().generic_visit(node)
        for f in ("body", "orelse", "finalbody"):
            b = getattr(node, f, None)
            if isinstance(b, list) and b and isinstance(b[0], ast.stmt):
                setattr(node, f, self._block(b))
        return node


class StatementNormalizer:
    """Wraps a Normalizer: the normal form with statement-level conditional expressions written as if-statements."""

    def __init__(self, inner: Normalizer):
        self.inner = inner
        self.P = inner.P
        self.stats = inner.stats
        self._cache: Dict[int, ast.Module] = {}

    def module(self, tree: ast.Module, modname: Optional[str] = None) -> ast.Module:
        base = self.inner.module(tree, modname)
        hit = _STMT_CACHE.get(id(base))
        if hit is not None and hit[0] is base:
            return hit[1]
        out = ast.fix_missing_locations(_Statementise().visit(copy.deepcopy(base)))
        if len(_STMT_CACHE) > 4000:
            _STMT_CACHE.clear()
        _STMT_CACHE[id(base)] = (base, out)
        return out

    def _module(self, tree):
        return ast.fix_missing_locations(_Statementise().visit(self.inner._module(tree)))

    def __getattr__(self, name):
        return getattr(self.inner, name)


_STMT_CACHE: Dict[int, tuple] = {}
