"""formulint.report — obligations, findings, known-finding matching, evidence and replay files."""
from __future__ import annotations

import ast
import json
import os
import time
from dataclasses import dataclass, field
from typing import Any, Dict, List, Optional

from .core import AnalysisError, FunctionInfo, ModuleInfo, norm

VERIF = os.path.dirname(os.path.dirname(os.path.abspath(__file__)))


@dataclass
class Obligation:
    rule: str  # e.g. "C06.R1"
    instance: str  # human-readable instance id (anchor + what)
    holds: bool
    where: str = ""  # file:line
    construct: str = ""  # normalised construct key (module:function:statement text)
    message: str = ""
    witness: Any = None
    trivial: bool = False

    @property
    def key(self) -> str:
        return f"{self.rule}|{self.construct or self.instance}"


class Ctx:
    """Collects the obligations of one property run."""

    def __init__(self, prop: str, project, tier: str = "quick"):
        self.prop = prop
        self.project = project
        self.tier = tier
        self.obligations: List[Obligation] = []
        self.inspected = 0  # AST constructs / call sites / table rows / paths actually examined
        self.floors: List[str] = []
        self.rules_run: List[str] = []
        self.notes: List[str] = []
        self.t0 = time.time()

    # ---- recording
    def look(self, n: int = 1) -> None:
        self.inspected += n

    def ok(self, rule: str, instance: str, where: str = "", note: str = "", trivial: bool = False) -> None:
        self.obligations.append(Obligation(rule, instance, True, where, "", note, None, trivial))

    def fail(self, rule: str, instance: str, where: str, construct: str, message: str, witness: Any = None) -> None:
        self.obligations.append(Obligation(rule, instance, False, where, construct, message, witness))

    def check(self, cond: bool, rule: str, instance: str, where: str, construct: str, message: str,
              witness: Any = None, note: str = "") -> bool:
        if cond:
            self.ok(rule, instance, where, note)
        else:
            self.fail(rule, instance, where, construct, message, witness)
        return bool(cond)

    def floor(self, rule: str, found: int, minimum: int, what: str) -> None:
        """A rule matching fewer sites than were confirmed by hand is an analysis error
        (a rule matching zero sites would pass vacuously forever)."""
        self.floors.append(f"{rule}: {found} {what} (floor {minimum})")
        if found < minimum:
            raise AnalysisError(f"{rule}: only {found} {what} found, floor is {minimum} — anchors changed shape")

    def construct(self, fi_or_mod, node: Optional[ast.AST] = None, text: Optional[str] = None) -> str:
        if isinstance(fi_or_mod, FunctionInfo):
            base = fi_or_mod.qualname
        elif isinstance(fi_or_mod, ModuleInfo):
            base = fi_or_mod.name
        else:
            base = str(fi_or_mod)
        t = text if text is not None else (norm(node) if node is not None else "")
        if len(t) > 160:
            t = t[:157] + "..."
        return f"{base}:{t}" if t else base

    # ---- results
    @property
    def failures(self) -> List[Obligation]:
        return [o for o in self.obligations if not o.holds]


def load_known() -> Dict[str, Any]:
    p = os.path.join(VERIF, "known_findings.json")
    if not os.path.exists(p):
        return {"known": [], "fixed": []}
    with open(p) as fh:
        return json.load(fh)


def match_known(prop: str, ob: Obligation, known: Dict[str, Any]) -> Optional[Dict[str, Any]]:
    for k in known.get("known", []):
        if k.get("property") == prop and k.get("rule") == ob.rule and k.get("construct") == ob.construct:
            return k
    return None


def finish(ctx: Ctx, *, evidence_dir: Optional[str] = None, explanation: str = "", assumptions: List[str] = (),
           extra: Optional[Dict[str, Any]] = None, write_evidence: bool = True, quiet: bool = False) -> int:
    """Print the report, write evidence / replay files; returns the exit code."""
    known = load_known()
    evidence_dir = evidence_dir or os.path.join(VERIF, "evidence")
    os.makedirs(os.path.join(evidence_dir, "replay"), exist_ok=True)
    viol, knowns = [], []
    for ob in ctx.failures:
        k = match_known(ctx.prop, ob, known)
        (knowns if k else viol).append((ob, k))
    out = []
    for ob, k in knowns:
        out.append(f"KNOWN-FINDING: property={ctx.prop} {ob.rule} {k.get('what_fails', ob.message)} [{ob.where}]")
    # replay files are rewritten per run
    rdir = os.path.join(evidence_dir, "replay")
    if write_evidence:
        for f in os.listdir(rdir):
            if f.startswith(ctx.prop + "-"):
                os.unlink(os.path.join(rdir, f))
    for i, (ob, _) in enumerate(viol):
        rp = os.path.join(rdir, f"{ctx.prop}-{i}.json")
        if write_evidence:
            with open(rp, "w") as fh:
                json.dump({"property": ctx.prop, "rule": ob.rule, "instance": ob.instance, "where": ob.where,
                           "construct": ob.construct, "message": ob.message, "witness": ob.witness}, fh, indent=1,
                          default=str)
        out.append(f"VIOLATION property={ctx.prop} replay={rp}")
        out.append(f"  rule      {ob.rule}  ({ob.instance})")
        out.append(f"  at        {ob.where}")
        out.append(f"  construct {ob.construct}")
        out.append(f"  why       {ob.message}")
        if ob.witness:
            w = ob.witness if isinstance(ob.witness, list) else [ob.witness]
            for line in w[:12]:
                out.append(f"    | {line}")
    n_ob = len(ctx.obligations)
    n_ok = n_ob - len(ctx.failures)
    distinct = len({(o.rule, o.instance) for o in ctx.obligations if not o.trivial})
    wall = time.time() - ctx.t0
    summary = (f"{ctx.prop} [{ctx.tier}] rules={len(ctx.rules_run)} obligations={n_ob} discharged={n_ok} "
               f"known={len(knowns)} violations={len(viol)} inspected={ctx.inspected} wall={wall:.2f}s")
    if not quiet:
        for line in out:
            print(line)
        print(summary)
    if write_evidence:
        st = ctx.project.stats
        samples = []
        seen_rules = set()
        for o in ctx.obligations:
            if o.rule not in seen_rules:
                seen_rules.add(o.rule)
                samples.append({"rule": o.rule, "instance": o.instance, "where": o.where,
                                "verdict": "holds" if o.holds else "violated", "note": o.message[:200]})
        ev = {
            "property_id": ctx.prop,
            "tier": ctx.tier,
            "seed": int(os.environ.get("VERIF_SEED", "0") or 0),
            "level": "other",
            "coverage": {
                "explanation": explanation,
                "obligations": n_ob,
                "discharged": n_ok,
                "evaluations": ctx.inspected,
                "distinct_nontrivial": distinct,
                "rule": "one obligation per rule instance (anchor x clause); distinct = distinct (rule, instance) pairs "
                        "whose subject is not marked trivial; evaluations = AST constructs / call sites / table rows / "
                        "CFG paths examined",
                "samples": samples[:40],
                "rules_run": ctx.rules_run,
                "floors": ctx.floors,
                "analysed": {"root": ctx.project.root, "modules": st["modules"], "functions": st["functions"],
                             "classes": st["classes"], "lines": st["lines"], "ast_nodes": st["nodes"],
                             "overlay_files": sorted(ctx.project.overlay)},
                "known_findings_printed": [f"{o.rule} {o.construct}" for o, _ in knowns],
                "exhaustive": True,
            },
            "assumptions": list(assumptions),
            "wall_s": round(wall, 3),
            "violations": len(viol),
        }
        if extra:
            ev["coverage"].update(extra)
        if ctx.notes:
            ev["coverage"]["notes"] = ctx.notes
        with open(os.path.join(evidence_dir, f"{ctx.prop}.json"), "w") as fh:
            json.dump(ev, fh, indent=1, default=str)
    return 1 if viol else 0
